#!/usr/bin/env python3
"""make_seed_prompts.py <round> <pid>... : writes /tmp/agent<round>_prompt_<pid>.txt and creates the scratch worktree
/tmp/w<round>_<pid> for an independent sub-agent that seeds a property-breaking change (sees only the property text and
short summaries of the earlier seeds for that property, nothing from /verif)."""
import json, subprocess, sys
from pathlib import Path

rnd, pids = sys.argv[1], sys.argv[2:]
props = {json.loads(l)["id"]: json.loads(l) for l in open("/verif/properties.jsonl")}
TEMPLATE = Path("/verif/tools/seed_prompt_template.txt").read_text()
for pid in pids:
    p = props[pid]
    wt = f"/tmp/w{rnd}_{pid}"
    notes = []
    for d in sorted(Path("/verif/seeded").glob(pid + "_*")):
        m = json.loads((d / "meta.json").read_text())
        notes.append("  - " + " ".join(str(m.get("summary", "")).split())[:420])
    note = ""
    if notes:
        note = ("NOTE: other engineers already produced the following changes for this property; yours must be DIFFERENT "
                "(another code site or another mechanism, not a variation of them):\n" + "\n".join(notes) + "\n\n")
    txt = TEMPLATE.format(WT=wt, PID=pid, TITLE=p["title"], STATEMENT=p["statement"], QUANT=p["quantifier"]["text"],
                          FILES=", ".join(p["anchors"]["files"]), NOTE=note)
    Path(f"/tmp/agent{rnd}_prompt_{pid}.txt").write_text(txt)
    subprocess.run(["git", "-C", "/repo", "worktree", "add", "-q", wt, "HEAD"], check=True)
    print(pid, wt)
