#!/usr/bin/env python3
"""keep_seed.py <seed name> <out dir of the sub-agent> <detected_by (comma list or 'none')> [note]"""
import json, shutil, sys
from pathlib import Path
name, src, det = sys.argv[1], Path(sys.argv[2]), sys.argv[3]
note = sys.argv[4] if len(sys.argv) > 4 else ""
dst = Path("/verif/seeded") / name
dst.mkdir(parents=True, exist_ok=True)
for f in ("patch.diff", "demo.py"):
    shutil.copy(src / f, dst / f)
meta = json.loads((src / "meta.json").read_text())
meta["confirmed"] = {
    "how": "tools/try_seed.sh: demo.py exit 0 on unchanged tree, exit 1 on changed tree; baseline pytest 66 passed on changed tree; "
           "checks run against a scratch worktree of /repo's HEAD with the patch applied (PYTHONPATH=<worktree>/src), /repo untouched",
    "detected_by_quick_checks": [] if det == "none" else det.split(","),
    "note": note,
}
(dst / "meta.json").write_text(json.dumps(meta, indent=1))
print("kept", dst)
