#!/usr/bin/env python3
"""Regenerates /verif/MANIFEST.json from the table below (single source of truth)."""
import json
from pathlib import Path

V = Path(__file__).resolve().parent.parent
IDS = [json.loads(l)["id"] for l in (V / "properties.jsonl").read_text().splitlines() if l.strip()]

TRUST = ("TLC 1.8 and the TLA+ specifications in /verif/spec; the harness projection of the public API; "
         "numpy-2 compatibility aliases installed in the harness process so that metador_core imports; "
         "exhaustive only within the constants named in the evidence file")

CHECKS = {
    "C01": dict(
        text=("The overlay design (read path with creation indices, write path with deletion/substitution markers) "
              "is model-checked exhaustively by TLC against the reference single-tree machine H5Tree for all "
              "histories with patch boundaries up to a bound, design mutants must be killed, and the code is bound to "
              "the specification in both directions: TLC-generated behaviours are replayed on IH5Record/IH5MFRecord, and "
              "seeded random histories on h5py.File (calibration of the reference), IH5Record and IH5MFRecord are validated "
              "step by step by TLC (Trace_IH5.tla) including hangs as violations."),
        technique="TLA+ refinement model (IH5Overlay => H5Tree) checked by TLC + batched trace validation of real histories + replay of TLC-simulated behaviours",
        design="4/C01"),
    "C02": dict(
        text=("TLC checks on the record-protocol machine (all open modes, patches, discard, merge, commit sub-steps, crashes) the action "
              "property that a committed container never changes except by the truncating 'w', and on the overlay model that the "
              "write path only touches the newest container; the code is bound by trace validation: after every public call of "
              "seeded protocol and data histories (both classes) the digests of all files are compared by TLC with their values at "
              "commit time, including crash/torn-write directories."),
        technique="TLA+ action property (FrozenStay/OldFrozen) checked by TLC + trace validation of file digests after every call",
        design="4/C02"),
    "C03": dict(
        text=("The open-mode contract is part of the protocol specification IH5Record!Step; TLC explores it exhaustively for small "
              "constants, and every cell of the matrix situation x mode x argument form x prefix-related neighbours, plus random "
              "protocol/data histories with reopen and discard, is executed on IH5Record and IH5MFRecord and validated step by step "
              "(outcome, exact disk effect, handle state, view as function of committed payloads, neighbours untouched)."),
        technique="TLA+ protocol specification (IH5Record.tla) + TLC + trace validation of the complete open-mode matrix and random histories",
        design="4/C03"),
    "C04": dict(
        category="model_checking",
        text=("TLC proves on the protocol machine that the step-by-step open checks accept exactly the declaratively valid file sets "
              "under every subset and single corruption (mutants of the checks are killed); the real classes are bound by fault "
              "enumeration: real records are damaged (payload byte flips, truncation, extension, removal, fork/foreign substitution, "
              "duplicates, user block and manifest edits), each damaged set is described from its bytes and TLC decides from the "
              "specification whether the observed open outcome is right."),
        technique="TLA+ validity specification checked by TLC (OpenChecks <=> Valid) + fault enumeration on real files judged by the specification",
        design="4/C04"),
    "C05": dict(
        text=("Merge is an action of the protocol specification (refused with an open patch, creates exactly one committed container "
              "carrying the newest identity, source untouched) and the overlay model proves View(Merged(files)) = View(files) in every "
              "reachable state; scripted and random histories with merges at various points and follow-up patches are executed on both "
              "classes and validated by TLC (merged view, source object and bytes unchanged, follow-up patches of the source open on "
              "top of the merged container with the same view)."),
        technique="TLA+ overlay invariant MergeOK + protocol action Merge checked by TLC + trace validation of merge histories",
        design="4/C05"),
    "C11": dict(
        text=("Commit is split into its sub-steps in the protocol machine with a Crash after each; TLC checks that the committed subset "
              "stays a valid record and that nothing opens cleanly with an unhashed payload. The code is bound by crash enumeration: "
              "directory snapshots at every API boundary, every prefix length of the commit's user-block write, torn manifests and "
              "SIGKILLed child processes; each crash directory is described from bytes, opened, and judged by TLC."),
        technique="TLA+ crash sub-step model checked by TLC + enumeration of crash/torn-write directories judged by the specification",
        design="4/C11"),
    "C10": dict(
        text=("A lock-step TLA+ model (IH5Stub.tla) applies every existence-based update both directly and over StubOf(record) for all "
              "bounded build histories and proves the two patch containers identical and applicable to the real containers; real "
              "IH5MFRecord histories are validated by TLC: manifest vs user block vs skeleton after every commit, manifest_exts "
              "inheritance, stub skeleton/no data/not mergeable, same outcomes in lock step, and the stub's patch appended to the real "
              "files shows the directly patched tree."),
        technique="TLA+ lock-step stub model checked by TLC + trace validation of manifest/stub histories on IH5MFRecord",
        design="4/C10"),
    "C06": dict(
        text=("The bookkeeping algorithm (register/unregister with schema and package reference counting, fresh uuids on copy, "
              "re-targeting on move, the incrementally maintained schema index) is modelled in TLA+ and TLC checks TOCSync and "
              "IndexEqRebuild in every reachable state for bounded histories (five bookkeeping mutants must be killed); the code is "
              "bound by trace validation of seeded histories executed in lock step on h5py.File, IH5Record and IH5MFRecord: after "
              "every successful or refused operation the complete raw state and the live vs rebuilt index are judged by TLC."),
        technique="TLA+ bookkeeping model (MC_Container) checked by TLC + trace validation of raw container state on three drivers",
        design="4/C06"),
    "C07": dict(
        text=("Container.tla defines Query/Matches declaratively; TLC proves on the bookkeeping model that the mechanism of "
              "MetadorMeta.query (live index children/versions + intersection) computes exactly Query in every reachable state; "
              "the code is bound by trace validation: after every step all stored objects are fetched by own and ancestor schemas "
              "and sampled container/group-level queries with version arguments are compared by TLC with Query over the logged state."),
        technique="TLA+ declarative Query vs index mechanism checked by TLC + trace validation of get/query results",
        design="4/C07"),
    "C08": dict(
        text=("User operations act on the user tree exactly as H5Tree!Apply whatever metadata operations are interleaved (TLC on the "
              "model; trace validation of the projection through every listing primitive on three drivers); a catalogue of "
              "path-taking methods derived from the H5GroupLike protocol and dir(MetadorGroup) is probed with nine reserved path "
              "shapes, and every raw attribute the interface does not define, each judged by TLC: refused and raw state unchanged."),
        technique="TLA+ reference tree + trace validation of user-visible projection + enumerated reserved-path/pass-through probes judged by the specification",
        design="4/C08"),
    "C09": dict(
        text=("The reference (H5Tree + Container) is deterministic in its user-visible part, so two drivers that are both traces of it "
              "agree; the same generated sequence is executed in lock step on h5py.File, IH5Record and IH5MFRecord with independent "
              "random patch boundaries and reopen points, each driver is validated against the reference and TLC evaluates the "
              "three-way clause drivers_agree on every step; data-level histories (random and few-paths-rewritten-often) additionally "
              "run through MetadorContainer on each of the three drivers and are validated by Trace_IH5 against H5Tree."),
        technique="Trace validation of lock-step executions on three drivers against one deterministic TLA+ reference + three-way agreement clause",
        design="4/C09"),
    "C20": dict(
        text=("SelfDescribing is an invariant of the bookkeeping model (TLC); in validated histories over a multi-version, three-level, "
              "two-package schema family the embedded JSON Schema digest, parent chain and provider of every used schema are "
              "compared by TLC with what the plugin system reports, every stored object is validated against the embedded schema, "
              "and a freshly constructed container object must report the same index as the live one."),
        technique="TLA+ invariant SelfDescribing checked by TLC + trace validation of embedded schema/package records against the plugin environment",
        design="4/C20"),
    "C16": dict(
        text=("PluginOrder.tla defines the order, supports and the registry machine; TLC checks reflexivity, antisymmetry, totality, "
              "trichotomy, transitivity (all 1.26M triples) and the supports laws exhaustively over 108 references, and RegistryOK "
              "over all registration orders of five versions; the exported order/supports table is compared entry by entry with real "
              "PluginRef objects (all comparison operators, hash, sorted, sets) and every registration order is replayed on the real "
              "schema plugin group through entry points and register_in_group; version-less classes must refuse subclassing; "
              "entry-point names round trip over a generated grammar. The order/supports laws are also discharged for all naturals "
              "by Apalache (PluginOrderUnbounded.tla)."),
        technique="TLA+ order/registry specification checked exhaustively by TLC (laws also unbounded by Apalache) + table-driven conformance of PluginRef/PluginGroup + replay of all registration orders",
        design="4/C16"),
    "C14": dict(
        text=("PartialMerge.tla defines the documented merge; TLC checks identity, associativity (with conflict absorbing), list "
              "concatenation, set union, recursive nested merge, no-value-dropped and later-wins for all triples of a 90-value "
              "universe and all pairs of a 486-value universe including falsy atoms and empty collections, and exports the expected "
              "outcome of every pair; each pair is rebuilt on two real model families (MetadataSchema partials and a plain pydantic "
              "PartialFactory with '' and 0.0) in randomly chosen production ways (constructed, parsed from dict/JSON/YAML, "
              "to_partial of complete objects), merged and compared; operands are checked for mutation; random triples and the "
              "to_partial/from_partial round trip are checked on real objects. The harvest pipeline is part of the specification "
              "(Harvest = left fold of Merge, first conflict aborts, empty sources neutral, lossless; checked for all triples) and "
              "strided triples are replayed through the real harvest() with harvester instances, metadata files, side-car loaders and "
              "configured file-harvester pipelines as sources; the degenerate classes (partial of a factory's base model, field-less "
              "classes) are checked separately."),
        technique="TLA+ merge algebra checked exhaustively by TLC (value-independently also by Apalache) + exported expected outcomes replayed on real partial models and harvest pipelines",
        design="4/C14"),
    "C18": dict(
        text=("DirDiff.tla defines Reported(a,b) declaratively, the documented listing order and an applier machine whose steps are "
              "enabled only if removals find an emptied node and additions find their parent; TLC checks for every pair of 81 "
              "snapshots (files, symlinks, empty and nested directories, file<->directory replacements) that the documented order is "
              "complete and safe and exports the pairs; every pair plus seeded random larger pairs is compared with the real DirDiff "
              "and TLC judges the recorded node list (exact set with status and entries, empty iff equal, the real order drives the "
              "applier to the new tree, get() agrees). PackerPipeline.tla models the consumer of the ordering -- the packer life "
              "cycle (pack, edit, update, refused calls; every diff node treated on its own) -- and TLC checks for every pair of "
              "snapshots that the container ends as the mirror of the new directory with exactly the reported paths written; "
              "histories of edits, pack and update calls on real containers (h5py.File, IH5Record) through the packer plugin group "
              "are validated against that machine (Trace_Packer.tla)."),
        technique="TLA+ diff/applier and packer life-cycle specifications checked by TLC + trace validation of real DirDiff results and of real pack/update histories on containers",
        design="4/C18"),
    "C19": dict(
        text=("DirHash.tla defines what a directory is for hashing (names, contents, resolved in-directory symlink targets, "
              "subdirectories) and the expected hash tree or rejection; TLC checks injectivity for all 130k pairs of the tree "
              "universe and exports the expectation per tree; every tree is materialised on disk in random creation order with "
              "random timestamps and file sizes around hash block boundaries, dir_hashsums is compared with the expectation "
              "(digests recomputed with hashlib) and real results are cross-checked pairwise; chunk-independent hashing is probed."),
        technique="TLA+ hash-tree specification checked by TLC over all pairs + enumerated trees materialised on disk and compared",
        design="4/C19"),
    "C15": dict(
        text=("ContainerAcl.tla is a state machine whose states are navigation chains over wrapper states (node, flags, local root, "
              "object handed out by parent), one primitive (lookups, listings, visits, query results, parent, restrict) per step from "
              "every start node and flag combination of a fixture container; TLC checks for all chains up to a deep bound that flags "
              "only grow and local-only wrappers stay below their local root (the rule of the pinned code, kept as a mutant, must be "
              "rejected), and prints the chains up to a smaller bound with the expected node/flags per step and the expected outcome "
              "of every mutating, reading and upward attempt; these are executed on real wrappers on both drivers, refusals must leave "
              "the raw container unchanged."),
        technique="TLA+ navigation state machine enumerated by TLC + replay of every chain and attempt on the real wrappers (both drivers)",
        design="4/C15"),
    "C17": dict(
        text=("Values are opaque tokens preserved by copy, move, patch, merge and reopen in the H5Tree/IH5Overlay/Container specifications "
              "(checked by TLC); the trace specification additionally tracks every embedded file (pack_file) through copy(+-metadata), "
              "move, delete and detach and TLC compares, after every step on three drivers and on the merged IH5 containers, the bytes "
              "read back and contentSize/sha256 of core.file with the reference; the byte strings come from a boundary pool; the "
              "deletion-marker file must be refused on IH5 without effect."),
        technique="TLA+ value-preservation in the container reference + trace validation of embedded bytes and file metadata over seeded continuations",
        design="4/C17"),
    "C12": dict(
        text=("SchemaCodec.tla defines class shapes over a field-type grammar (10 primitive kinds; Optional, default, List, Set, Union, "
              "nested) with own/inherited/overridden constant fields, abstract instances, Enc/Dec and the laws RoundTrip, stability, "
              "constants always dumped / ignored on load, None-as-missing; TLC checks the laws for every (shape, instance) and exports "
              "them; each is built as a real MetadataSchema subclass with values from boundary pools and JSON/bytes/YAML round trips, "
              "key structure and constant handling are compared with the specification, also for instances derived from an already "
              "serialised one; installed schema plugins are round-tripped with hand-written instances and with instances generated from "
              "their field types (values given as text or as objects). The model decides the "
              "structure; number/YAML formatting fidelity is decided only for the values in the pools."),
        technique="TLA+ codec laws over an enumerated type grammar (TLC) + every enumerated (shape, instance) concretised on real schema classes",
        design="4/C12, 6",
        note=("TLC and the specification; the concretisation pools of harness/c12.py (a value outside the pools is not covered); numpy-2 "
              "aliases in the harness process; Unions of two string-encoded kinds are outside the grammar")),
    "C13": dict(
        text=("SchemaSubtype.tla defines a field-type grammar (strict primitives, constrained string, Literals, nested schemas in a chain; "
              "Optional, Union, List, Set), a boundary value corpus, Accepts and the semantic subtype relation; TLC checks for all 11236 "
              "ordered type pairs that the structural rule is sound and exports Accepts and Sub; the harness calibrates Accepts against "
              "real pydantic verdicts on every (type, value), then runs check_types on real Parent/(Middle/)Child classes for the type "
              "pairs: an override accepted without declaration must be a semantic subtype (witness shown otherwise), declared overrides "
              "must pass, extra-field policy must not be loosened; child instances of installed and harness schema families are parsed "
              "by every ancestor. PluginLoad.tla models how the check is wired into plugin loading under dependencies (entered "
              "first, checked, dependencies in every order, taken out again on failure): TLC checks that a request is granted exactly "
              "when nothing in the dependency closure is invalid and that the loaded set stays closed and valid; families of real "
              "schema plugins (requires edges, parent plugins, invalid members) are requested in every order and judged by "
              "Trace_PluginLoad.tla."),
        technique="TLA+ semantic subtype relation over a type grammar and corpus (TLC) + check_types decisions on real classes judged against it",
        design="4/C13, 6",
        note=("TLC and the specification; the value corpus is finite (a counterexample outside the corpus is not found); Accepts is "
              "calibrated against pydantic at run time; numpy-2 aliases in the harness process")),
}

NOT_YET = "check not built yet (work in progress)"


def main():
    checks = []
    for pid in IDS:
        if pid not in CHECKS:
            continue
        c = CHECKS[pid]
        checks.append({
            "property_id": pid,
            "quick_cmd": f"cd /verif && /venv/bin/python -m harness.check {pid} --tier quick",
            "thorough_cmd": f"cd /verif && /venv/bin/python -m harness.check {pid} --tier thorough",
            "evidence_file": f"/verif/evidence/{pid}.json",
            "replay_cmd_template": "cd /verif && /venv/bin/python -m harness.replay {path}",
            "engine": "tlc+trace-validation",
            "level_claimed": {"category": c.get("category", "model_checking"), "text": c["text"],
                              "design_ref": f"DESIGN.md section {c['design']}"},
            "level_note": c.get("note", TRUST),
            "technique": c["technique"],
        })
    m = {
        "version": 1,
        "setup_cmd": "cd /verif && /venv/bin/python -m harness.setup",
        "hooks": {
            "guard": "METADOR_CORE_VERIF",
            "enable": "no source hooks are needed: the library is sequential, checks observe the public API and the bytes on disk of /repo's current working tree (editable install in /venv)",
            "baseline_off_cmd": "cd /repo && /venv/bin/python -m pytest -ra -q -p no:cacheprovider --timeout=900 --continue-on-collection-errors",
            "source_commits": [],
            "add_only": True,
        },
        "engines": [{
            "name": "tlc+trace-validation", "path": "/verif/harness",
            "serves_properties": [c["property_id"] for c in checks],
            "kind_free_text": "TLA+ specifications (spec/*.tla) model-checked with TLC; Python harness replays TLC behaviours into metador-core and validates recorded traces of metador-core against the specifications with TLC",
        }],
        "checks": checks,
        "notes": "See DESIGN.md. Exit codes: 0 held, 1 VIOLATION, 2 machinery failure (never a violation). known_findings.json lists repaired (fixed:) and recorded defects.",
        "not_applicable": [{"property_id": p, "reason": NOT_YET} for p in IDS if p not in CHECKS],
    }
    (V / "MANIFEST.json").write_text(json.dumps(m, indent=1) + "\n")
    print("checks:", [c["property_id"] for c in checks])


if __name__ == "__main__":
    main()
