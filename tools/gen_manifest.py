#!/usr/bin/env python3
"""Regenerates /verif/MANIFEST.json from the table below (single source of truth)."""
import json
from pathlib import Path

V = Path(__file__).resolve().parent.parent
IDS = [json.loads(l)["id"] for l in (V / "properties.jsonl").read_text().splitlines() if l.strip()]

TRUST = ("TLC 1.8 and the TLA+ specifications in /verif/spec; the harness projection of the public API; "
         "numpy-2 compatibility aliases installed in the harness process so that metador_core imports; "
         "exhaustive only within the constants named in the evidence file")

CHECKS = {
    "C01": dict(
        text=("The overlay design (read path with creation indices, write path with deletion/substitution markers) "
              "is model-checked exhaustively by TLC against the reference single-tree machine H5Tree for all "
              "histories with patch boundaries up to a bound, design mutants must be killed, and the code is bound to "
              "the specification in both directions: TLC-generated behaviours are replayed on IH5Record/IH5MFRecord, and "
              "seeded random histories on h5py.File (calibration of the reference), IH5Record and IH5MFRecord are validated "
              "step by step by TLC (Trace_IH5.tla) including hangs as violations."),
        technique="TLA+ refinement model (IH5Overlay => H5Tree) checked by TLC + batched trace validation of real histories + replay of TLC-simulated behaviours",
        design="4/C01"),
}

NOT_YET = "check not built yet (work in progress)"


def main():
    checks = []
    for pid in IDS:
        if pid not in CHECKS:
            continue
        c = CHECKS[pid]
        checks.append({
            "property_id": pid,
            "quick_cmd": f"cd /verif && /venv/bin/python -m harness.check {pid} --tier quick",
            "thorough_cmd": f"cd /verif && /venv/bin/python -m harness.check {pid} --tier thorough",
            "evidence_file": f"/verif/evidence/{pid}.json",
            "replay_cmd_template": "cd /verif && /venv/bin/python -m harness.replay {path}",
            "engine": "tlc+trace-validation",
            "level_claimed": {"category": c.get("category", "model_checking"), "text": c["text"],
                              "design_ref": f"DESIGN.md section {c['design']}"},
            "level_note": c.get("note", TRUST),
            "technique": c["technique"],
        })
    m = {
        "version": 1,
        "setup_cmd": "cd /verif && /venv/bin/python -m harness.setup",
        "hooks": {
            "guard": "METADOR_CORE_VERIF",
            "enable": "no source hooks are needed: the library is sequential, checks observe the public API and the bytes on disk of /repo's current working tree (editable install in /venv)",
            "baseline_off_cmd": "cd /repo && /venv/bin/python -m pytest -ra -q -p no:cacheprovider --timeout=900 --continue-on-collection-errors",
            "source_commits": [],
            "add_only": True,
        },
        "engines": [{
            "name": "tlc+trace-validation", "path": "/verif/harness",
            "serves_properties": [c["property_id"] for c in checks],
            "kind_free_text": "TLA+ specifications (spec/*.tla) model-checked with TLC; Python harness replays TLC behaviours into metador-core and validates recorded traces of metador-core against the specifications with TLC",
        }],
        "checks": checks,
        "notes": "See DESIGN.md. Exit codes: 0 held, 1 VIOLATION, 2 machinery failure (never a violation). known_findings.json lists repaired (fixed:) and recorded defects.",
        "not_applicable": [{"property_id": p, "reason": NOT_YET} for p in IDS if p not in CHECKS],
    }
    (V / "MANIFEST.json").write_text(json.dumps(m, indent=1) + "\n")
    print("checks:", [c["property_id"] for c in checks])


if __name__ == "__main__":
    main()
