#!/bin/bash
# usage: try_seed.sh <property id> <dir with patch.diff demo.py meta.json> [check ids...]
# Confirms the seeded change (demo passes before / fails after, baseline tests unchanged) in a scratch
# worktree of /repo's HEAD and runs the given checks (quick tier) against that changed worktree
# (PYTHONPATH=<worktree>/src; evidence of the trial goes to a scratch directory).  /repo itself is
# never touched, so trials can run next to each other and next to checks of the unchanged tree.
# (Equivalent to: git -C /repo apply patch.diff; run checks; git -C /repo checkout -- .)
set -u
PID=$1; DIR=$2; shift 2; CHECKS=${@:-$PID}
WT=/tmp/seedwt_$$
git -C /repo worktree add -q $WT HEAD || exit 2
echo "== demo on unchanged tree"; REPO_SRC=$WT/src PYTHONPATH=$WT/src /venv/bin/python $DIR/demo.py > /tmp/seed_demo_before_$$.txt 2>&1; B=$?; tail -2 /tmp/seed_demo_before_$$.txt
git -C $WT apply $DIR/patch.diff || { echo "patch does not apply"; git -C /repo worktree remove --force $WT; exit 2; }
echo "== demo on changed tree"; REPO_SRC=$WT/src PYTHONPATH=$WT/src /venv/bin/python $DIR/demo.py > /tmp/seed_demo_after_$$.txt 2>&1; A=$?; tail -2 /tmp/seed_demo_after_$$.txt
echo "== baseline tests on changed tree"; (cd $WT && PYTHONPATH=$WT/src /venv/bin/python -m pytest -q -p no:cacheprovider --timeout=900 --continue-on-collection-errors 2>&1 | tail -1)
echo "demo exit before=$B after=$A"
for c in $CHECKS; do
  echo "== check $c (quick) on changed tree $(cd /verif && PYTHONPATH=$WT/src /venv/bin/python -c 'from harness import compat; import metador_core; print(metador_core.__file__)')"
  (cd /verif && PYTHONPATH=$WT/src VERIF_TRIAL_EVIDENCE=/tmp/seed_evidence_$$ timeout 1800 /venv/bin/python -m harness.check $c --tier quick 2>&1 | grep -E "^OK|^VIOLATION|MACHINERY|KNOWN|^  " | cut -c1-700 | head -6)
done
git -C /repo worktree remove --force $WT
rm -rf /tmp/seed_evidence_$$ /tmp/seed_demo_before_$$.txt /tmp/seed_demo_after_$$.txt
