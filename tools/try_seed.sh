#!/bin/bash
# usage: try_seed.sh <property id> <dir with patch.diff demo.py meta.json> [check ids...]
# Confirms the seeded change (demo passes before / fails after, baseline tests unchanged) in a scratch
# worktree, then applies it to /repo, runs the given checks (quick tier), and undoes it.
set -u
PID=$1; DIR=$2; shift 2; CHECKS=${@:-$PID}
WT=/tmp/seedwt_$$
git -C /repo worktree add -q $WT HEAD || exit 2
echo "== demo on unchanged tree"; REPO_SRC=$WT/src PYTHONPATH=$WT/src /venv/bin/python $DIR/demo.py > /tmp/seed_demo_before.txt 2>&1; B=$?; tail -2 /tmp/seed_demo_before.txt
git -C $WT apply $DIR/patch.diff || { echo "patch does not apply"; git -C /repo worktree remove --force $WT; exit 2; }
echo "== demo on changed tree"; REPO_SRC=$WT/src PYTHONPATH=$WT/src /venv/bin/python $DIR/demo.py > /tmp/seed_demo_after.txt 2>&1; A=$?; tail -2 /tmp/seed_demo_after.txt
echo "== baseline tests on changed tree"; (cd $WT && PYTHONPATH=$WT/src /venv/bin/python -m pytest -q -p no:cacheprovider --timeout=900 --continue-on-collection-errors 2>&1 | tail -1)
git -C /repo worktree remove --force $WT
echo "demo exit before=$B after=$A"
[ -n "$(git -C /repo status --porcelain)" ] && { echo "/repo not clean"; exit 2; }
git -C /repo apply $DIR/patch.diff || exit 2
for c in $CHECKS; do
  echo "== check $c (quick) on changed /repo"
  (cd /verif && timeout 1800 /venv/bin/python -m harness.check $c --tier quick 2>&1 | grep -E "^OK|^VIOLATION|MACHINERY|KNOWN|^  " | head -6)
done
git -C /repo checkout -- .
git -C /repo status --porcelain
