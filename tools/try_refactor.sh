#!/bin/bash
# usage: try_refactor.sh <dir with patch.diff> <check ids...>
# A behaviour-preserving refactoring must leave every check silent (false-alarm trial).
set -u
DIR=$1; shift; CHECKS=$@
WT=/tmp/refwt_$$
git -C /repo worktree add -q $WT HEAD || exit 2
git -C $WT apply $DIR/patch.diff || { echo "patch does not apply"; git -C /repo worktree remove --force $WT; exit 2; }
echo "== baseline tests: $(cd $WT && PYTHONPATH=$WT/src /venv/bin/python -m pytest -q -p no:cacheprovider --timeout=900 --continue-on-collection-errors 2>&1 | tail -1)"
echo "== upstream tests with shim: $(cd $WT && PYTHONPATH=/verif:$WT/src /venv/bin/python -c "
from harness import compat
import pytest, sys
sys.exit(pytest.main(['-q','-p','no:cacheprovider','tests/ih5','tests/container','tests/schema','tests/plugin','tests/util','--timeout=600']))" 2>&1 | tail -1)"
for c in $CHECKS; do
  echo "== check $c: $(cd /verif && PYTHONPATH=$WT/src VERIF_TRIAL_EVIDENCE=/tmp/ref_ev_$$ timeout 2400 /venv/bin/python -m harness.check $c --tier quick 2>&1 | grep -E "^OK|^VIOLATION|MACHINERY|^  " | cut -c1-400 | head -4)"
done
git -C /repo worktree remove --force $WT; rm -rf /tmp/ref_ev_$$
