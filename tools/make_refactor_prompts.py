#!/usr/bin/env python3
"""make_refactor_prompts.py <tag>=<file> ... : prompts for behaviour-preserving refactorings (false-alarm trials)."""
import json, subprocess, sys
from pathlib import Path
props = [json.loads(l) for l in open("/verif/properties.jsonl")]
plist = "\n".join(f"  {p['id']} {p['title']}: {p['statement']}" for p in props)
T = Path("/verif/tools/refactor_prompt_template.txt").read_text()
for it in sys.argv[1:]:
    tag, f = it.split("=")
    wt = f"/tmp/wr_{tag}"
    Path(f"/tmp/agentr_prompt_{tag}.txt").write_text(T.format(WT=wt, FILE=f, PROPS=plist))
    subprocess.run(["git", "-C", "/repo", "worktree", "add", "-q", wt, "HEAD"], check=True)
    print(tag, wt)
