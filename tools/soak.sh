#!/bin/bash
# usage: soak.sh <tier> <seed>... -- <check id>...   (run from /verif or a snapshot of it)
# Runs the given checks once per seed on the unchanged tree; evidence goes to a scratch directory.
tier=$1; shift
seeds=(); while [ "$1" != "--" ]; do seeds+=("$1"); shift; done; shift
for s in "${seeds[@]}"; do
  for c in "$@"; do
    echo "=== seed $s $c"
    VERIF_SEED=$s VERIF_TRIAL_EVIDENCE=/tmp/soak_ev_$$ timeout 14000 /venv/bin/python -m harness.check $c --tier $tier 2>&1 | grep -E "^OK|^VIOLATION|MACHINERY|KNOWN|^  " | cut -c1-600 | head -8
  done
done
rm -rf /tmp/soak_ev_$$
