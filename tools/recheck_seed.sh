#!/bin/bash
# usage: recheck_seed.sh <seed name>   -> prints "<name> <check> DETECTED|MISSED|NOAPPLY|NA"
# Applies an archived seeded change to a scratch worktree of /repo's HEAD and runs the quick checks recorded as
# detecting it; at least one must still report a VIOLATION (regression test of the machinery itself).
set -u
N=$1; D=/verif/seeded/$N
CHECKS=$(/venv/bin/python -c "import json,sys; m=json.load(open('$D/meta.json')); print(' '.join(m['confirmed']['detected_by_quick_checks']))")
[ -z "$CHECKS" ] && { echo "$N - NA"; exit 0; }
WT=/tmp/reseed_$$
git -C /repo worktree add -q $WT HEAD || exit 2
if ! git -C $WT apply $D/patch.diff 2>/dev/null; then
  if ! git -C $WT apply --3way $D/patch.diff >/dev/null 2>&1 || grep -rq "^<<<<<<< " $WT/src 2>/dev/null; then
    echo "$N - NOAPPLY"; git -C /repo worktree remove --force $WT; exit 0
  fi
fi
RES=MISSED
for c in $CHECKS; do
  OUT=$(cd /verif && PYTHONPATH=$WT/src VERIF_TRIAL_EVIDENCE=/tmp/reseed_ev_$$ timeout 2400 /venv/bin/python -m harness.check $c --tier quick 2>&1 | grep -c "^VIOLATION")
  if [ "$OUT" -gt 0 ]; then RES="DETECTED"; echo "$N $c $RES"; break; fi
done
[ "$RES" = MISSED ] && echo "$N $CHECKS MISSED"
git -C /repo worktree remove --force $WT; rm -rf /tmp/reseed_ev_$$
