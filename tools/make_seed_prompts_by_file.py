#!/usr/bin/env python3
"""make_seed_prompts_by_file.py <round> <tag>=<source file> ... : like make_seed_prompts.py, but the sub-agent is given a
source file and ALL property statements and may break whichever property it can through that file (cross-cutting seeds)."""
import json, subprocess, sys
from pathlib import Path

rnd, items = sys.argv[1], sys.argv[2:]
props = [json.loads(l) for l in open("/verif/properties.jsonl")]
TEMPLATE = Path("/verif/tools/seed_prompt_template.txt").read_text()
plist = "\n".join(f"  {p['id']} {p['title']}: {p['statement']}" for p in props)
for it in items:
    tag, f = it.split("=")
    wt = f"/tmp/w{rnd}_{tag}"
    notes = []
    for d in sorted(Path("/verif/seeded").glob("*")):
        m = json.loads((d / "meta.json").read_text())
        diff = (d / "patch.diff").read_text()
        if f in diff:
            notes.append("  - " + " ".join(str(m.get("summary", "")).split())[:300])
    note = ""
    if notes:
        note = ("NOTE: other engineers already produced the following changes in this file; yours must be DIFFERENT "
                "(another function or another mechanism, not a variation of them):\n" + "\n".join(notes) + "\n\n")
    txt = TEMPLATE.format(WT=wt, PID=tag, TITLE="(any of the properties listed below)",
                          STATEMENT="see the list below; choose the property (or properties) your change breaks and name it in meta.json",
                          QUANT="as stated per property", FILES=f"src/metador_core/{f} (your change must be in this file)", NOTE=note)
    txt = txt.replace("The library should satisfy the following semantic property:",
                      "The library should satisfy the following semantic properties:\n" + plist + "\n\nYour assignment:")
    Path(f"/tmp/agent{rnd}_prompt_{tag}.txt").write_text(txt)
    subprocess.run(["git", "-C", "/repo", "worktree", "add", "-q", wt, "HEAD"], check=True)
    print(tag, wt, len(notes))
