"""Type-hint driven generator of valid instances of (installed or generated) schema classes.

The generator proposes values per field from boundary pools; pydantic decides which
candidates a leaf type admits (so the generator needs no knowledge of constrained string
patterns etc.), and the complete instance is validated by the schema class itself.
"""
import enum
import random
import typing
from typing import Any, Dict, List, Optional

from . import compat  # noqa: F401

from pydantic import BaseModel, create_model
from pydantic.fields import ModelField

LEAF_POOL: List[Any] = [
    True, False, 0, 1, 7, 2 ** 40, -3, 0.5, 1e-3, 2.75, 1e12,
    "x", "Some Name", "äöü ✓", "yes", "null", "1.0", "line\nbreak", "a b.bin", "  padded  ", "smile \U0001F600", "\U00020BB7 han", "1e3",
    "w" * 70 + "   " + "v" * 30,
    "text/plain", "image/png", "application/octet-stream", "text/plain;charset=utf-8",
    "ab12", "ab" * 32, "sha256:" + "ab" * 32, "sha512:" + "0f" * 64,
    "https://example.org/a", "http://localhost:8080/p?q=1#f", "https://orcid.org/0000-0000-0000-0001", "https://ror.org/02nv7yv05",
    "./a%20b.bin", "./d/", "#frag",
    "2020-01-01", "2020-02-29T12:30:00", "2021-12-31T23:59:59+01:00",
    "PT1H", "P1DT2S", "PT0.5S",
    "meter", "kilogram / second ** 2", "5 meter", "7.5 pixel", "3 px", "0 second",
    "1.2.3", "0.1.0",
    "single_crystal", "tensile_test", "other",
]

_admit_cache: Dict[Any, List[Any]] = {}


def admitted(tp, config) -> List[Any]:
    """The candidates of the pool that a field of type tp (under the schema config) admits."""
    key = (repr(tp), id(config))
    if key in _admit_cache:
        return _admit_cache[key]
    try:
        M = create_model("Probe", __config__=config, v=(tp, ...))
    except Exception:
        _admit_cache[key] = []
        return []
    ok = []
    for c in LEAF_POOL:
        try:
            M(v=c)
            ok.append(c)
        except Exception:
            pass
    _admit_cache[key] = ok
    return ok


def gen_value(tp, config, rng: random.Random, depth: int):
    origin = typing.get_origin(tp)
    args = typing.get_args(tp)
    if tp is Any:
        return rng.choice(["x", 1, True])
    if origin is typing.Union:
        non_none = [a for a in args if a is not type(None)]
        if not non_none or (type(None) in args and rng.random() < 0.25):
            return None
        rng.shuffle(non_none)
        for a in non_none:
            v = gen_value(a, config, rng, depth)
            if v is not None:
                return v
        return None
    if origin in (list, typing.List, set, typing.Set, frozenset, tuple, typing.Tuple) or tp in (list, set, tuple):
        if origin in (tuple, typing.Tuple) and args and args[-1] is not Ellipsis:
            return [gen_value(a, config, rng, depth + 1) for a in args]
        inner = args[0] if args else Any
        n = rng.choice([0, 1, 1, 2])
        vals = [gen_value(inner, config, rng, depth + 1) for _ in range(n)]
        return [v for v in vals if v is not None]
    if origin in (dict, typing.Dict) or tp is dict:
        return {} if rng.random() < 0.6 else {"k": "v"}
    if origin is typing.Literal:
        return rng.choice(list(args))
    if origin is not None and hasattr(typing, "Annotated") and origin is getattr(typing, "Annotated", None):
        return gen_value(args[0], config, rng, depth)
    try:
        from typing_extensions import Annotated, get_origin as te_origin
        if te_origin(tp) is Annotated:
            return gen_value(typing.get_args(tp)[0], config, rng, depth)
    except Exception:
        pass
    if isinstance(tp, type) and issubclass(tp, enum.Enum):
        return rng.choice(list(tp)).value
    if isinstance(tp, type) and issubclass(tp, BaseModel):
        if depth > 3:
            return None
        return gen_data(tp, rng, depth + 1)
    cands = admitted(tp, config)
    if not cands:
        return None
    return rng.choice(cands)


def gen_data(cls, rng: random.Random, depth: int = 0) -> Dict[str, Any]:
    """Plain data (by field name) that is likely a valid instance of the model class."""
    data: Dict[str, Any] = {}
    hints = {}
    try:
        hints = typing.get_type_hints(cls, include_extras=True)
    except Exception:
        pass
    consts = getattr(cls, "__constants__", {}) or {}
    for name, f in cls.__fields__.items():
        if name in consts:
            continue
        f = typing.cast(ModelField, f)
        if not f.required and rng.random() < (0.45 if depth else 0.35):
            continue
        tp = hints.get(name, f.outer_type_)
        v = gen_value(tp, cls.__config__, rng, depth)
        if v is None and f.required:
            v = gen_value(f.outer_type_, cls.__config__, rng, depth)
        if v is not None:
            data[name] = v
    return data


def instances(cls, rng: random.Random, n: int, tries: int = 40) -> List[Any]:
    """Up to n valid instances of cls (objects), distinct by their JSON."""
    out, seen = [], set()
    for _ in range(n * tries):
        if len(out) >= n:
            break
        try:
            obj = cls.parse_obj(gen_data(cls, rng))
            js = obj.json()
        except Exception:
            continue
        if js not in seen:
            seen.add(js)
            out.append(obj)
    return out
