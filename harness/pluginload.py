"""Plugin loading with dependencies (spec/PluginLoad.tla): families of schema plugins with `requires` edges, some of
them invalid (an undeclared incompatible override in their class chain), requested in every order.

The plugin system must hand out a plugin exactly when nothing in its dependency closure is invalid -- whatever was
requested (and refused) before, and however often.
"""
from __future__ import annotations

import itertools
import random
from typing import Any, Dict, List, Optional, Tuple

from . import compat  # noqa: F401
from . import synth

_fam = [0]


def make_family(dep: Dict[int, List[int]], invalid: List[int], via_parent: bool) -> Dict[int, str]:
    """Register a fresh family of plugins 1..n (n = len(dep)); returns plugin names by index.

    dep[i]: indices (> i) plugin i depends on (`Plugin.requires`; with via_parent the first dependency of a valid plugin
    is expressed by subclassing that plugin instead).  An invalid plugin subclasses an unregistered class that widens a
    field of the family's base schema without declaration."""
    from metador_core.plugins import schemas
    from metador_core.schema import MetadataSchema
    _fam[0] += 1
    fam = _fam[0]
    modname = f"verif_pl_{fam}"
    mod = synth.module(modname)
    Meta = type(MetadataSchema)
    base = Meta(f"PLBase{fam}", (MetadataSchema,), {"__annotations__": {"f": Optional[int]}, "__module__": modname})
    mid = Meta(f"PLMid{fam}", (base,), {"__annotations__": {"f": Optional[str]}, "__module__": modname})   # undeclared widening
    setattr(mod, base.__name__, base)
    setattr(mod, mid.__name__, mid)
    names = {i: f"vq.f{fam}p{i}" for i in dep}
    classes: Dict[int, Any] = {}
    for i in sorted(dep, reverse=True):
        reqs = list(dep[i])
        bases: Tuple[Any, ...] = (mid,) if i in invalid else (base,)
        if via_parent and i not in invalid and reqs and reqs[0] in classes and reqs[0] not in invalid:
            bases = (classes[reqs[0]],)      # dependency by inheritance: the parent plugin
            reqs = reqs[1:]
        plug = type("Plugin", (), {"name": names[i], "version": (1, 0, 0),
                                   "requires": [schemas.PluginRef(name=names[j], version=(1, 0, 0)) for j in reqs]})
        cls = Meta(f"PL{fam}_{i}", bases, {"__annotations__": {f"g{i}": Optional[int]}, "Plugin": plug, "__module__": modname})
        setattr(mod, cls.__name__, cls)
        classes[i] = cls
    synth.register_package(f"vq-pkg-{fam}", "1.0.0", [classes[i] for i in sorted(classes)], modname=modname)
    return names


def request(name: str) -> Tuple[bool, str]:
    from metador_core.plugins import schemas
    try:
        schemas[name]
        return True, ""
    except Exception as ex:
        return False, f"{type(ex).__name__}: {str(ex)[:100]}"


def loaded_now(names: Dict[int, str]) -> Optional[List[int]]:
    """Which plugins of the family the group currently counts as loaded (diagnostic; private state)."""
    from metador_core.plugins import schemas
    table = getattr(schemas, "_LOADED_PLUGINS", None)
    if not isinstance(table, dict):
        return None          # not shown by this tree: only the outcomes are judged
    got = {getattr(r, "name", None) for r in table}
    return sorted(i for i, n in names.items() if n in got)


def run_case(dep, invalid, reqs, via_parent) -> Dict[str, Any]:
    names = make_family(dep, invalid, via_parent)
    evs = []
    for p in reqs:
        ok, exc = request(names[p])
        evs.append({"p": p, "ok": ok, "exc": exc, "loaded": loaded_now(names)})
    shown = all(e["loaded"] is not None for e in evs)
    for e in evs:
        e["loaded"] = e["loaded"] or []
    return {"dep": [[i, sorted(dep[i])] for i in sorted(dep)], "invalid": sorted(invalid), "via_parent": via_parent, "reqs": evs,
            "hasloaded": shown}


# --------------------------------------------------------------------------------------
# the part of a check

def part(rep, wd, quick: bool, rng: random.Random):
    from . import common
    from .common import cfg_text, run_tlc
    n = 3 if quick else 4
    cfg = cfg_text("Spec", constants={"Plugins": set(range(1, n + 1)), "Mutant": "none"},
                   invariants=["OutcomeIsLoadable", "LoadedClosedAndValid"], properties=["LoadedOnlyGrows"])
    r = run_tlc("MC_PluginLoad", cfg, wd, timeout=2400, tag="_load")
    rep.add_tlc("plugin_load_model", r, plugins=n, graphs="all acyclic", invalid_sets="all", dependency_orders="all", exhaustive=True)
    if r.violated:
        rep.violation(f"TLC: {r.violated} violated in the plugin-loading model", {"tlc_out": r.out[-3000:]})
        return
    if not r.ok or r.distinct < 500:
        rep.machinery(f"TLC failed on PluginLoad: {r.error or r.out[-500:]}")
        return
    killed = {}
    for mu in ("refused_stays_entered", "dependent_stays_entered"):
        cfgm = cfg_text("Spec", constants={"Plugins": {1, 2, 3}, "Mutant": mu}, invariants=["OutcomeIsLoadable", "LoadedClosedAndValid"])
        rm = run_tlc("MC_PluginLoad", cfgm, wd, timeout=600, tag="_load_" + mu)
        killed[mu] = rm.violated or ""
        if not rm.violated:
            rep.machinery(f"plugin-loading mutant {mu} not rejected by the model")
    rep.parts["plugin_load_mutants_killed"] = killed
    # every acyclic graph over three plugins x every invalid set x request sequences; four plugins sampled
    cases = []
    g3 = [{1: list(a), 2: list(b), 3: []} for a in ([], [2], [3], [2, 3]) for b in ([], [3])]
    for d in g3:
        for inv in ([], [1], [2], [3], [2, 3], [1, 3]):
            seqs = [list(s) for s in itertools.permutations((1, 2, 3))]
            seqs += [[1, 1, 2], [3, 1, 1], [2, 1, 2]]
            if quick:
                seqs = rng.sample(seqs, 3)
            for s in seqs:
                cases.append((d, inv, s + [s[0]], rng.random() < 0.5))
    for _ in range(20 if quick else 400):
        d = {1: sorted(rng.sample([2, 3, 4], rng.randint(0, 3))), 2: sorted(rng.sample([3, 4], rng.randint(0, 2))),
             3: [4] if rng.random() < 0.5 else [], 4: []}
        inv = sorted(rng.sample([1, 2, 3, 4], rng.randint(0, 2)))
        cases.append((d, inv, [rng.randint(1, 4) for _ in range(6)], rng.random() < 0.5))
    traces = []
    for d, inv, reqs, vp in cases:
        traces.append(run_case(d, inv, reqs, vp))
    verd = common.validate_traces("Trace_PluginLoad", traces, wd, chunk=200)
    st = common.validate_traces.last_stats
    rep.states += st["states"]; rep.transitions += st["transitions"]
    nreq = sum(len(t["reqs"]) for t in traces)
    refused = sum(1 for t in traces for e in t["reqs"] if not e["ok"])
    rep.parts["plugin_load_conformance"] = {"families": len(traces), "requests": nreq, "refused": refused}
    rep.evaluations += nreq
    for t, v in zip(traces, verd):
        for step, clause in v:
            e = t["reqs"][step - 1]
            rep.violation(f"plugin loading: dependencies {t['dep']}, invalid {t['invalid']}, requests "
                          f"{[(x['p'], x['ok']) for x in t['reqs'][:step]]}: request {step} fails {clause} (loaded afterwards: {e['loaded']}) "
                          f"{e['exc'][:80]}", {"family": t, "step": step, "clause": clause})
    if refused < 10 or nreq - refused < 10:
        rep.machinery(f"vacuous plugin-loading conformance: {nreq} requests, {refused} refused")
    # binding self-test
    import copy
    muts = []
    for t in traces:
        bad_ = [j for j, e in enumerate(t["reqs"]) if not e["ok"]]
        if bad_:
            m = copy.deepcopy(t)
            m["reqs"][bad_[0]]["ok"] = True
            m["reqs"][bad_[0]]["loaded"] = sorted(set(m["reqs"][bad_[0]]["loaded"]) | {m["reqs"][bad_[0]]["p"]})
            muts.append(m)
        if len(muts) >= 6:
            break
    if muts:
        vm = common.validate_traces("Trace_PluginLoad", muts, wd, tag="_selftest")
        missed = sum(1 for v in vm if not v)
        rep.parts["plugin_load_binding_selftest"] = {"corrupted": len(muts), "rejected": len(muts) - missed}
        if missed:
            rep.machinery(f"plugin-loading binding self-test: {missed} corrupted traces accepted")
