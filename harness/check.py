"""Entry point: python -m harness.check <property id> [--tier quick|thorough]."""
import argparse
import importlib
import os
import sys
import traceback


def main():
    ap = argparse.ArgumentParser()
    ap.add_argument("pid")
    ap.add_argument("--tier", default=os.environ.get("VERIF_TIER", "quick"), choices=["quick", "thorough"])
    a = ap.parse_args()
    try:
        mod = importlib.import_module(f"harness.{a.pid.lower()}")
        rc = mod.run(a.tier)
    except Exception:
        traceback.print_exc()
        print(f"MACHINERY-ERROR property={a.pid} uncaught exception", file=sys.stderr)
        rc = 2
    sys.exit(rc)


if __name__ == "__main__":
    main()
