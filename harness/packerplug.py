"""Harness-registered packer plugins for the packer life cycle (spec/PackerPipeline.tla).

Two one-to-one mirror packers written the way packer/example.py documents it (directories become
groups, files embedded files with pack_file, symlinks are ignored; update walks diff.annotate() and
treats every diff node on its own).  They differ in name and in what check_dir refuses, so that
refused directories and updates by a different packer exist in the histories.
"""
from __future__ import annotations

import sys
from pathlib import Path

from . import compat  # noqa: F401
from . import synth

from overrides import overrides

from metador_core.packer import Packer
from metador_core.packer.types import DirValidationErrors
from metador_core.packer.utils import pack_file
from metador_core.util.diff import DiffNode, DirDiff

LOG = []          # (packer, call) -- what the plugin group asked the packer to do
ATTEMPTS = [0]    # how many such things were tried
PROBES = []       # names of things a packer must not be able to do with the container it is handed, that were carried out


def probe_guards(mc):
    """Requirements 1 and 2 of the Packer contract, tried from inside a packer: no finalizing (close / commit / discard),
    no access to data, attribute values or metadata objects already in the container."""
    def attempt(name, thunk):
        ATTEMPTS[0] += 1
        try:
            thunk()
            PROBES.append(name)
        except Exception:
            pass
    attempt("close", lambda: mc.close())
    for meth in ("commit_patch", "discard_patch"):
        if hasattr(mc, meth):
            attempt(meth, getattr(mc, meth))
    found = []
    mc.visititems(lambda n, node: found.append(node) if not hasattr(node, "keys") else None)
    for node in found[:2]:
        attempt("read dataset", lambda node=node: node[()])
        attempt("read metadata object", lambda node=node: node.meta["core.file"])
        attempt("metadata get", lambda node=node: (_ for _ in ()).throw(KeyError()) if node.meta.get("core.file") is None else None)
    # (`node.file` hands out the unrestricted, closable container -- the observation recorded for C15 in DESIGN.md,
    #  section 5; `file` is not among the navigation primitives the property lists, so it is not probed here)


class _Mirror(Packer):
    FIRST = "x"   # set by the harness: the concrete name the refusal rules look at

    @classmethod
    @overrides
    def update(cls, mc, data_dir: Path, diff: DirDiff):
        LOG.append((cls.Plugin.name, "update"))
        for path, dnode in diff.annotate(data_dir).items():
            if dnode is None:
                continue
            status = diff.status(dnode)
            key = f"{dnode.path}"
            if key in ("", "."):
                continue
            if status == DiffNode.Status.removed:
                if dnode.prev_type != DiffNode.ObjType.symlink:
                    del mc[key]
                continue
            if status == DiffNode.Status.modified:
                if dnode.prev_type == dnode.curr_type and dnode.curr_type == DiffNode.ObjType.directory:
                    continue
                if dnode.prev_type != DiffNode.ObjType.symlink:
                    del mc[key]
            if path.is_symlink():
                continue
            if path.is_dir():
                mc.create_group(key)
            elif path.is_file():
                pack_file(mc, path, target=key)
        probe_guards(mc)

    @classmethod
    @overrides
    def pack(cls, mc, data_dir: Path):
        LOG.append((cls.Plugin.name, "pack"))
        return super().pack(mc, data_dir)


class MirrorA(_Mirror):
    """Refuses a directory whose top-level entry FIRST is a symlink."""

    class Plugin:
        name = "vf.pa"
        version = (0, 1, 0)

    @classmethod
    @overrides
    def check_dir(cls, data_dir: Path) -> DirValidationErrors:
        errs = DirValidationErrors()
        if (data_dir / cls.FIRST).is_symlink():
            errs.add(cls.FIRST, "must not be a symlink")
        return errs


class MirrorB(_Mirror):
    """Refuses a directory without a top-level entry FIRST."""

    class Plugin:
        name = "vf.pb"
        version = (0, 1, 0)

    @classmethod
    @overrides
    def check_dir(cls, data_dir: Path) -> DirValidationErrors:
        errs = DirValidationErrors()
        p = data_dir / cls.FIRST
        if not (p.exists() or p.is_symlink()):
            errs.add(cls.FIRST, "is required")
        return errs


_registered = False


def register():
    """Make both packers known to the packer plugin group through a synthetic distribution."""
    global _registered
    if _registered:
        return
    from metador_core.plugin import entrypoints
    from metador_core.plugin.types import to_ep_name
    from metador_core.plugins import packers
    from metador_core.schema.plugins import PluginPkgMeta

    synth._patch()
    mod = sys.modules[__name__]
    eps = [(str(to_ep_name(c.Plugin.name, tuple(c.Plugin.version))), f"{mod.__name__}:{c.__name__}") for c in (MirrorA, MirrorB)]
    d = synth.SynthDist("verif-packers", "0.3.1", {"metador_packer": eps})
    synth._DISTS["verif-packers"] = d
    entrypoints.pkg_meta["verif-packers"] = PluginPkgMeta.for_package("verif-packers")
    for ep in d.entry_points.select(group="metador_packer"):
        packers._add_ep(ep.name, ep)
    _registered = True
