"""C04 — only coherent, untampered file sets open as a record."""
from __future__ import annotations

import random

from . import common, compat, protocommon as PC
from .common import Report

CLAUSES = {"probe_opens_iff_valid", "probe_model_checks_eq_valid", "built_record_is_valid"}


def run(tier: str) -> int:
    rep = Report("C04", tier, level="model_checking")
    quick = tier == "quick"
    seed = common.seed()
    rep.assumptions += [compat.ASSUMPTION,
                        "a probe's file set is described from its bytes by the harness (documented user block layout, "
                        "sha256 of the payload); TLC decides from that description whether it is a valid record"]
    rep.rule = ("valid records built by seeded histories (0-3 patches, with and without an uncommitted newest container, both "
                "classes, a fork and a foreign record of the same name); corruptions: flipped payload bytes of committed "
                "containers (strided/all positions), truncation, extension, removal, substitution by fork/foreign containers, "
                "added and duplicated containers, user block edits and byte flips, manifest edits/removal; each damaged set "
                "is opened by the real class; distinct = distinct (record, corruption); non-trivial = every probe")
    wd = common.workdir("C04")
    try:
        PC.record_model(rep, wd, 7 if quick else 9, invs=["OpenIffValid", "RecordsValid"], props=(), label="open_checks_model")
        PC.record_mutants(rep, wd, ["skip_newest_hash_match", "prev_by_index_only", "no_uuid_distinct", "manifest_unchecked",
                                     "manifest_of_newest_only"])
        jobs = PC.probe_jobs("corruption", 3 if quick else 9, seed, positions=12 if quick else 200, nops=3,
                             all_bytes=False)
        if not quick:
            jobs += PC.probe_jobs("corruption", 1, seed + 1, start=900, all_bytes=True, nops=2)
        good, verd = PC.run_validate(rep, wd, jobs, "corruption_probes", "harness.probeworker", only=CLAUSES, stall=120,
                                     describe=lambda e: f"{e.get('what','')}: opened={e['ok']} exc={e.get('exc','')}")
        nprobe = 0
        opened = 0
        for j, t in good:
            for e in t[1:]:
                nprobe += 1
                opened += 1 if e["ok"] else 0
                rep.nontrivial.add((j["tid"], e.get("what", "")))
        rep.parts["corruption_probes"].update(probes=nprobe, opened=opened, refused=nprobe - opened)
        if good:
            t = good[0][1]
            for e in t[1:6]:
                rep.sample({"corruption": e["what"], "opened": e["ok"], "exception": e["exc"]})
        if nprobe and (opened == 0 or opened == nprobe):
            rep.machinery("vacuous probe set: all probes had the same outcome")
    except common.MachineryError as e:
        rep.machinery(str(e)[:2500])
    finally:
        common.cleanup(wd)
    return rep.finish()
