"""C02 — committed IH5 containers (and their manifests) are never modified again."""
from __future__ import annotations

import random

from . import common, compat, ih5common as X, protocommon as PC
from .c01 import jobs_random
from .common import Report

CLAUSES = {"committed_bytes_frozen", "crash_committed_bytes_identical"}


def run(tier: str) -> int:
    rep = Report("C02", tier)
    quick = tier == "quick"
    seed = common.seed()
    rng = random.Random(seed)
    rep.assumptions += [compat.ASSUMPTION,
                        "bytes are observed as sha256 of every file of the record directory after every public call"]
    rep.rule = ("protocol histories (all open modes except the truncating 'w' excluded from the claim, patches, discard, "
                "merge, close/reopen) and data histories on IH5Record/IH5MFRecord; after every call the digest of every "
                "file is compared by TLC with the digest it had when its container was committed; distinct = distinct "
                "action sequences; non-trivial = more than two actions")
    wd = common.workdir("C02")
    try:
        # model: FrozenStay (protocol machine) and OldFrozen (overlay write path only touches the newest container)
        PC.record_model(rep, wd, 7 if quick else 9, props=("FrozenStay",), invs=["RecordsValid"], label="frozen_model")
        X.overlay_exhaustive(rep, wd, "overlay_old_containers_frozen", "Spec", 4 if quick else 5, 3)
        # code: protocol-level histories
        jobs = PC.random_proto_jobs(40 if quick else 400, 18 if quick else 30, seed) + \
            PC.merge_jobs(10 if quick else 80, seed, start=50000) + PC.close_variant_jobs(seed, start=60000)
        good, verd = PC.run_validate(rep, wd, jobs, "protocol_histories", "harness.protoworker", only=CLAUSES)
        for j, t in good[:2]:
            rep.sample({"cls": j["cls"], "actions": [[e["op"], e["a"].get("mode", ""), e["ok"]] for e in t[1:]]})
        # code: data histories with boundaries, reopen, discard (whole-file digests at every step)
        jobs = jobs_random(40 if quick else 300, 16 if quick else 24, seed + 2, drivers=("ih5", "ih5mf"), pb=0.25, pr=0.12, pd=0.06)
        X.run_and_validate(rep, wd, jobs, "data_histories", clause_filter=lambda c: c in
                           {"committed_bytes_frozen", "open_does_not_alter_files", "snapshot_still_valid"})
        # crash / torn-write directories: committed files byte-identical
        jobs = PC.probe_jobs("crash", 1 if quick else 6, seed, start=70000, rounds=2, nops=3, all_prefixes=not quick)
        PC.run_validate(rep, wd, jobs, "crash_directories", "harness.probeworker", only=CLAUSES, stall=90)
        acc = [t for (j, t), v in zip(good, verd) if not v]
        PC.proto_selftest(rep, wd, acc, rng, n=8 if quick else 24)
        if not quick:
            PC.record_mutants(rep, wd, ["hash_before_close"])
    except common.MachineryError as e:
        rep.machinery(str(e)[:2500])
    finally:
        common.cleanup(wd)
    return rep.finish()
