"""C19 — directory hashsums identify directory content."""
from __future__ import annotations

import hashlib
import json
import os
import random
import shutil
from pathlib import Path
from typing import Any, Dict, List

from . import common, compat
from .common import Report, cfg_text, run_tlc

SIZES = [0, 1, 63, 64, 65, 127, 128, 129, 4095, 4096, 4097, 70000, 1048576 + 5]


def content(token: str, variant: int) -> bytes:
    """Concrete bytes for a content token: sizes around hash block boundaries, NULs, high bytes."""
    n = SIZES[variant % len(SIZES)]
    if token == "c1":
        return bytes((i * 7 + variant) % 256 for i in range(n))
    return bytes((i * 13 + 5 + variant) % 256 for i in range(n + 1))


def flatten(d: Dict[str, Any], pre=()) -> Dict[tuple, Any]:
    out = {}
    for k, v in d.items():
        if isinstance(v, dict):
            out[pre + (k,)] = "<dir>"
            out.update(flatten(v, pre + (k,)))
        else:
            out[pre + (k,)] = v
    return out


def materialise(base: Path, tree: List[Dict[str, Any]], names: Dict[str, str], variant: int, rng: random.Random):
    base.mkdir(parents=True)
    es = [e for e in tree if e["p"]]
    # any creation order that creates parents first
    rng.shuffle(es)
    es.sort(key=lambda e: len(e["p"]))
    for e in es:
        p = base.joinpath(*[names[s] for s in e["p"]])
        if e["k"] == "d":
            p.mkdir()
        elif e["k"] == "f":
            p.write_bytes(content(e["v"][0], variant))
        else:
            os.symlink(os.path.join(*[names.get(s, s) for s in e["v"]]), p)
    for e in es:   # timestamps must not matter
        p = base.joinpath(*[names[s] for s in e["p"]])
        if e["k"] != "s":
            t = rng.randrange(10 ** 9)
            os.utime(p, (t, t))


def expected(case, names, variant) -> Dict[tuple, Any]:
    out = {}
    for h in case["hs"]:
        p = tuple(names[s] for s in h["p"])
        if h["k"] == "d":
            out[p] = "<dir>"
        elif h["k"] == "f":
            out[p] = "sha256:" + hashlib.sha256(content(h["v"][1], variant)).hexdigest()
        else:
            tgt = "/".join(names.get(s, s) for s in h["v"]) or "."
            out[p] = "symlink:" + tgt
    return out


def run(tier: str) -> int:
    rep = Report("C19", tier)
    quick = tier == "quick"
    seed = common.seed()
    rng = random.Random(seed)
    rep.assumptions += [compat.ASSUMPTION, "symlink chains (a link whose target is another link) are outside the modelled universe",
                        "file digests are recomputed independently with hashlib"]
    rep.rule = ("TLC enumerates all directory trees over names {x,y}/{x}, depth 2, two file contents, five raw symlink targets "
                "(sibling, the same written differently, parent's entry, two ways outside), checks for every pair that accepted "
                "trees have equal hash trees iff they are semantically equal, and exports for every tree the expected hash tree or "
                "REJECTED; every tree is materialised on disk (random creation order, random timestamps, file sizes around block "
                "boundaries) and dir_hashsums is compared; pairs of real results are cross-checked for injectivity; "
                "distinct = distinct (tree, content variant)")
    wd = common.workdir("C19")
    try:
        from metador_core.util.hashsums import dir_hashsums, file_hashsum, qualified_hashsum
        out = wd / "cases.json"
        cfg = cfg_text("Spec", constants={"Contents": {"c1", "c2"}, "Stride": 1},
                       invariants=["EqualIffSame", "RawTargetIrrelevant"], postcondition="Export")
        cfg = cfg.replace("CONSTANTS\n", "CONSTANTS\n  RawTargets <- RT\n  Names1 <- N1\n  Names2 <- N2\n")
        r = run_tlc("MC_DirHash", cfg, wd, env={"OUT_FILE": str(out)}, timeout=1800)
        rep.add_tlc("hash_tree_model", r, exhaustive=True)
        if r.violated:
            rep.violation(f"TLC: {r.violated} violated in the DirHash model", {"tlc_out": r.out[-4000:]})
        elif not r.ok or not out.exists():
            rep.machinery(f"TLC failed on DirHash: {r.error or r.out[-600:]}")
            return rep.finish()
        cases = json.loads(out.read_text())
        # the name "o" is a sibling of the hashed directory whose name starts with the directory's name
        NAME_MAPS = [{"x": "data", "y": "data2.bin", "o": "root_backup"},
                     {"x": "a", "y": "a.b", "o": "root.bak"}, {"x": "a b", "y": "a", "o": "root copy"},
                     {"x": ".hidden", "y": "ä ✓", "o": "root_"}, {"x": "A", "y": "a", "o": "rootX"},
                     {"x": "10", "y": "9", "o": "root2"},
                     # a backslash is an ordinary name character (never a separator)
                     {"x": "run\\1", "y": "run", "o": "root\\x"}, {"x": "a", "y": "a\\a", "o": "root\\"}]
        variants = [0, 3, len(SIZES) - 1] if quick else list(range(len(SIZES)))
        results = []
        nrej = nacc = nskip = 0
        scratch = wd / "dirs"
        for ci, case in enumerate(cases):
            tree = case["tree"]
            syms = {tuple(e["p"]) for e in tree if e["k"] == "s"}
            chain = False
            for e in tree:
                if e["k"] == "s":
                    cur = list(e["p"][:-1])
                    okp = True
                    for s in e["v"]:
                        if s == "..":
                            if not cur:
                                okp = False
                                break
                            cur.pop()
                        elif s != ".":
                            cur.append(s)
                    if okp and tuple(cur) in syms:
                        chain = True
            if chain:
                nskip += 1
                continue
            for variant in variants:
                names = NAME_MAPS[(ci + variant) % len(NAME_MAPS)]
                base = scratch / f"t{ci}_{variant}" / "root"
                materialise(base, tree, names, variant, rng)
                # what an escaping link would reach: a sibling directory sharing the name prefix
                (base.parent / names["o"]).mkdir(exist_ok=True)
                (base.parent / names["o"] / "f").write_bytes(b"outside")
                try:
                    got: Any = flatten(dir_hashsums(base))
                except ValueError as ex:
                    got = "REJECTED"
                except Exception as ex:
                    got = f"{type(ex).__name__}: {str(ex)[:100]}"
                exp: Any = "REJECTED" if case["rejected"] else expected(case, names, variant)
                rep.evaluations += 1
                rep.nontrivial.add((ci, variant))
                if got != exp:
                    rep.violation(f"dir_hashsums of {[('/'.join(e['p']), e['k'], e['v']) for e in tree if e['p']]} "
                                  f"(content variant {variant}): got {got}, specification {exp}",
                                  {"tree": tree, "variant": variant, "got": str(got), "expected": str(exp)})
                elif got == "REJECTED":
                    nrej += 1
                else:
                    nacc += 1
                    if variant == variants[0]:
                        # (compared only among directories materialised with the same concrete names)
                        results.append((ci, json.dumps([(ci + variant) % len(NAME_MAPS), sorted((list(k), v) for k, v in got.items())])))
                # single edit: one content byte of one file changes, size and timestamps stay the same
                files = [e for e in tree if e["k"] == "f"]
                if got == exp and exp != "REJECTED" and files and (ci + variant) % 2 == 0:
                    e = files[(ci + variant) % len(files)]
                    fp = base.joinpath(*[names[s] for s in e["p"]])
                    st = fp.stat()
                    old = fp.read_bytes()
                    new = (bytes([old[0] ^ 0x01]) + old[1:]) if old else None
                    if new is not None:
                        fp.write_bytes(new)
                        os.utime(fp, ns=(st.st_atime_ns, st.st_mtime_ns))
                        again = flatten(dir_hashsums(base))
                        want = dict(exp)
                        want[tuple(names[s] for s in e["p"])] = "sha256:" + hashlib.sha256(new).hexdigest()
                        rep.evaluations += 1
                        if again != want:
                            rep.violation(f"after changing one byte of {'/'.join(e['p'])} (same size, timestamps restored) "
                                          f"dir_hashsums does not show the digest of the new content", {"tree": tree, "variant": variant})
                shutil.rmtree(base.parent, ignore_errors=True)
        # injectivity on the real results: equal hashsum trees only for semantically equal directories
        sem = {}
        for ci, case in enumerate(cases):
            sem[ci] = json.dumps(sorted((h["p"], h["k"], h["v"]) for h in case["hs"]))
        seen: Dict[str, int] = {}
        for ci, hs in results:
            if hs in seen and sem[seen[hs]] != sem[ci]:
                rep.violation("two semantically different directories got equal hashsum trees",
                              {"a": cases[seen[hs]]["tree"], "b": cases[ci]["tree"]})
            seen.setdefault(hs, ci)
        rep.parts["materialised_trees"] = {"trees": len(cases) - nskip, "skipped_symlink_chains": nskip, "content_variants": len(variants),
                                           "accepted": nacc, "rejected": nrej, "file_sizes": SIZES}
        rep.traces = nacc + nrej
        # chunked reading: digest independent of how the stream is delivered
        import io
        for n in SIZES:
            b = content("c1", SIZES.index(n))
            exp = "sha256:" + hashlib.sha256(b).hexdigest()
            p = wd / "blob"
            p.write_bytes(b)

            class Dribble(io.RawIOBase):
                def __init__(self, data):
                    self.d, self.i = data, 0

                def read(self, size=-1):
                    k = 1 if self.i % 2 else 7
                    k = min(k, size) if size and size > 0 else k
                    out_ = self.d[self.i: self.i + k]
                    self.i += len(out_)
                    return out_
            if not (file_hashsum(p) == exp and qualified_hashsum(b) == exp and qualified_hashsum(Dribble(b)) == exp):
                rep.violation(f"file hashsum of {n} bytes differs from hashlib / depends on read chunking", {"size": n})
        if nrej == 0 or nacc == 0:
            rep.machinery(f"vacuous: accepted={nacc} rejected={nrej}")
        c = next(c for c in cases if not c["rejected"] and len(c["tree"]) > 3)
        rep.sample({"tree": [("/".join(e["p"]), e["k"], e["v"]) for e in c["tree"] if e["p"]],
                    "expected_hash_tree": [("/".join(h["p"]), h["k"], h["v"]) for h in c["hs"]]})
    except common.MachineryError as e:
        rep.machinery(str(e)[:2500])
    finally:
        common.cleanup(wd)
    return rep.finish()
