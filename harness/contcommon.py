"""Shared engine of the container checks (C06, C07, C08, C09, C15, C17, C20)."""
from __future__ import annotations

import copy
import random
from pathlib import Path
from typing import Any, Dict, List, Optional, Set

from . import common, h5run
from .common import Report, cfg_text, run_tlc

CLAUSES = {
    "C06": {"toc_sync", "no_empty_bookkeeping_groups", "meta_follows_reference", "uuids_stable", "index_eq_rebuild",
            "failed_op_changes_nothing", "schema_record_complete", "state_observable", "container_identity_stable",
            "meta_listing_is_storage"},
    "C07": {"query_exact", "get_returns_stored", "get_found_iff_matches", "ancestor_view_valid", "ok_matches_reference",
            "state_observable", "parent_path_is_class_chain", "held_handles_current", "meta_listing_is_storage"},
    "C08": {"user_view_is_plain_tree", "listings_consistent", "reserved_rejected_without_effect",
            "no_unexpected_reserved_nodes", "tree_is_apply_of_reference", "state_observable"},
    "C09": {"ok_matches_reference", "tree_is_apply_of_reference", "meta_follows_reference", "drivers_agree",
            "query_exact", "operation_terminates", "user_view_is_plain_tree", "state_observable", "container_identity_stable"},
    "C20": {"self_describing", "embedded_jsonschema_current", "objects_validate_against_embedded_schema",
            "schema_record_complete", "index_eq_rebuild", "state_observable", "parent_path_is_class_chain"},
}
MODEL_INVS = {
    "C06": ["TocSyncInv", "IndexEqRebuild"],
    "C07": ["QueryExact"],
    "C08": ["TreeWellFormed", "TocSyncInv"],
    "C09": ["TreeWellFormed", "TocSyncInv"],
    "C20": ["SelfDescribingInv", "IndexEqRebuild"],
}
MODEL_MUTANTS = {
    "C06": ["stale_child_entries", "delete_keeps_links", "copy_keeps_uuids", "move_does_not_relink", "schema_record_leak"],
    "C07": [],
    "C08": [],
    "C09": [],
    "C20": ["schema_record_leak"],
}


def model_cfg(maxops: int, invs: List[str], mutant: str = "none") -> str:
    return cfg_text("Spec", constants={"Keys": {"a", "b"}, "MaxDepth": 2, "MaxOps": maxops, "MaxUuid": 5,
                                       "Mutant": mutant}, constraint="Bound", invariants=invs)


def container_model(rep: Report, wd: Path, pid: str, maxops: int, workers: int = common.NCPU):
    invs = MODEL_INVS[pid]
    r = run_tlc("MC_Container", model_cfg(maxops, invs), wd, workers=workers, tag="_model", timeout=3400)
    rep.add_tlc("container_bookkeeping_model", r, keys=["a", "b"], max_depth=2, max_ops=maxops - 1,
                schema_family="a<-b<-c, d; packages p1{a,b} p2{c,d}", invariants=invs, exhaustive=True)
    if r.violated:
        rep.violation(f"TLC: {r.violated} violated in the container bookkeeping model: " + " | ".join(r.behaviour[-8:]),
                      {"tlc_out": r.out[-5000:]})
    elif not r.ok:
        rep.machinery(f"TLC failed on the container model: {r.error or r.out[-600:]}")
    elif r.distinct < 500:
        rep.machinery(f"vacuous container model: {r.distinct} states")


def container_mutants(rep: Report, wd: Path, pid: str, depth: int = 9, num: int = 30000):
    import concurrent.futures as cf
    muts = MODEL_MUTANTS[pid]
    if not muts:
        return

    def one(mu):
        return mu, run_tlc("MC_Container", model_cfg(depth, ["TocSyncInv", "IndexEqRebuild", "SelfDescribingInv"], mu), wd,
                           workers=max(2, common.NCPU // len(muts)), simulate=f"num={num}", depth=depth,
                           tag="_mut_" + mu, timeout=900)
    killed = {}
    with cf.ThreadPoolExecutor(max_workers=len(muts)) as ex:
        for mu, r in ex.map(one, muts):
            killed[mu] = r.violated or ""
            rep.states += r.distinct
            rep.transitions += r.generated
            if not r.violated:
                rep.machinery(f"bookkeeping mutant '{mu}' not detected by the model invariants")
    rep.parts["bookkeeping_mutants_killed"] = killed


FLAVOURS = [
    {},                                                           # balanced
    {"data_weights": {"set_attr": 8, "del_attr": 6, "set_dataset": 1.5, "create_group": 1, "delete": 1, "copy": 1, "move": 1},
     "p_attach": 0.08, "p_detach": 0.02, "p_reserved": 0.02, "pb": 0.3, "pr": 0.1, "attr_keys": ["k"]},  # attribute-heavy, many boundaries
    {"p_attach": 0.42, "p_detach": 0.22, "p_reserved": 0.03, "pr": 0.22, "pb": 0.1},      # metadata-heavy, many reopen points
    {"data_weights": {"copy": 6, "move": 5, "delete": 4, "set_dataset": 3, "create_group": 3, "set_attr": 1, "del_attr": 0.5},
     "p_attach": 0.3, "p_detach": 0.05, "p_reserved": 0.03},                              # restructuring-heavy
    {"depth": 1, "pb": 0.2, "p_attach": 0.12, "p_detach": 0.04, "p_reserved": 0.02,
     "data_weights": {"set_dataset": 5, "delete": 4, "move": 4, "copy": 2, "create_group": 1.5, "set_attr": 1.5, "del_attr": 0.5,
                      "require_group": 0}},                                                # few paths, rewritten over and over
    {"p_attach": 0.38, "attach_deep_datasets": 0.7, "restructure_groups_with_meta": 0.6, "resurrect_annotated": 0.45,
     "p_detach": 0.04, "p_reserved": 0.02,
     "data_weights": {"copy": 5, "move": 9, "set_dataset": 5, "create_group": 2, "delete": 1.5, "set_attr": 0.5, "del_attr": 0.2}},
    # metadata on datasets inside groups, then the groups are copied / moved
]


DIRECTED = ["prefix_siblings", "two_schemas_one_package", "copy_without_meta_below", "move_group_then_recreate"]


def jobs(n: int, nops: int, seed: int, **kw) -> List[Dict[str, Any]]:
    return [{"tid": k + 1, "seed": seed * 17 + k, "nops": nops, "stage": 0 if k % 5 == 0 else 1,
             "concrete": k % 4 in (0, 3), **(FLAVOURS + FLAVOURS[5:])[k % (len(FLAVOURS) + 1)],
             # every fifth history opens with one of the scripted situations (contworker.directed_prologue)
             **({"directed": DIRECTED[(k // 5) % len(DIRECTED)]} if k % 5 == 2 else {}), **kw} for k in range(n)]


def run_container(rep: Report, wd: Path, pid: str, js: List[Dict[str, Any]], label: str = "container_histories",
                  clauses: Optional[Set[str]] = None, worker: str = "harness.contworker", module: str = "Trace_Container"):
    clauses = clauses if clauses is not None else CLAUSES[pid]
    traces, meta = h5run.run_histories(js, wd, module=worker, stall=90)
    if meta["crashes"]:
        t, tb = next(iter(meta["crashes"].items()))
        rep.machinery(f"{label}: {len(meta['crashes'])} worker crashes, e.g. {tb[-800:]}")
    good = [(j, t) for j, t in zip(js, traces) if t]
    verd = common.validate_traces(module, [t for _, t in good], wd, tag="_" + label, chunk=12)
    st = common.validate_traces.last_stats  # type: ignore
    rep.states += st["states"]
    rep.transitions += st["transitions"]
    rep.traces += len(good) * 3
    stats = {"histories": len(good), "events": 0, "ops": {}, "refused": 0, "attached_objects_max": 0, "rejected": 0,
             "failing_clauses_of_other_properties": 0, "hangs": len(meta["hangs"])}
    for (j, t), v in zip(good, verd):
        stats["events"] += len(t) - 1
        rep.evaluations += (len(t) - 1) * len(t[0]["d"])
        for e in t[1:]:
            stats["ops"][e["op"]] = stats["ops"].get(e["op"], 0) + 1
            if e["a"].get("ro"):
                stats["ops_on_read_only_drivers"] = stats.get("ops_on_read_only_drivers", 0) + 1
            if not e["d"][0]["ok"]:
                stats["refused"] += 1
            stats["attached_objects_max"] = max(stats["attached_objects_max"], len(e["d"][0]["meta"]))
        if any(e["d"][0]["meta"] for e in t):
            rep.nontrivial.add(repr([(e["op"], e["a"].get("p"), e["a"].get("q"), e["a"].get("schema"), e["d"][0]["ok"]) for e in t]))
        mine = [x for x in v if x[1] in clauses]
        stats["failing_clauses_of_other_properties"] += len(v) - len(mine)
        if mine:
            stats["rejected"] += 1
            step = min(x[0] for x in mine)
            e = t[step - 1]
            drv = [x[2] for x in mine if x[0] == step][0]
            d = next((x for x in e["d"] if x["drv"] == drv), e["d"][0])
            a = {k: v_ for k, v_ in e["a"].items() if v_ not in ("", [], False, 0)}
            rep.violation(f"{label}: tid={j['tid']} step {step} driver={drv} op={a} ok={d['ok']} exc={d['exc'][:100]} "
                          f"fails {sorted({(c, dr) for s_, c, dr in mine if s_ == step})}",
                          {"job": j, "failing": mine, "action": e["a"], "driver_record": d,
                           "previous": next((x for x in t[step - 2]["d"] if x["drv"] == d["drv"]), None)})
    rep.parts[label] = stats
    return good, verd


def container_selftest(rep: Report, wd: Path, accepted: List[List[Any]], rng: random.Random, pid: str, n: int = 8):
    cands = [t for t in accepted if len(t) > 5 and any(e["d"][0]["meta"] for e in t)]
    if not cands:
        rep.machinery("container binding self-test: nothing to corrupt")
        return
    kinds_by_pid = {
        "C06": ["drop_link", "dup_uuid", "empty_group", "index_differs"],
        "C07": ["drop_query_result", "extra_query_result", "get_not_equal", "flip_ok", "phantom_listing"],
        "C08": ["leak_reserved", "hide_user_node", "reserved_effect", "listing"],
        "C09": ["driver_tree_differs", "flip_ok_one_driver", "driver_meta_differs", "driver_tree_differs"],
        "C20": ["wrong_parents", "jsdig", "not_validating", "wrong_provider"],
    }[pid]
    muts, kinds = [], []
    for k in range(n):
        t = copy.deepcopy(rng.choice(cands))
        idx = [i for i, e in enumerate(t) if i > 0 and e["d"][0]["meta"]]
        e = t[rng.choice(idx)]
        d = e["d"][rng.randrange(len(e["d"]))]
        kind = kinds_by_pid[k % len(kinds_by_pid)]
        if kind == "drop_link":
            d["links"].pop()
        elif kind == "dup_uuid" and len(d["meta"]) > 1:
            d["meta"][0]["uuid"] = d["meta"][1]["uuid"]
        elif kind == "dup_uuid":
            d["links"].append(dict(d["links"][0]))
            d["links"][-1]["target"] = "/elsewhere"
        elif kind == "empty_group":
            d["empties"] = ["/metador_container/links/zz"]
        elif kind == "index_differs":
            d["index_live"] = d["index_live"] + " "
        elif kind == "drop_query_result":
            q = [q for q in d["queries"] if q["result"]]
            if not q:
                d["queries"].append({"start": [], "schema": d["meta"][0]["schema"][0], "ver": [], "result": [], "err": ""})
            else:
                q[0]["result"].pop()
        elif kind == "extra_query_result":
            if not d["queries"]:
                d["queries"].append({"start": [], "schema": "vf.dd", "ver": [], "result": [["zz"]], "err": ""})
            else:
                d["queries"][0]["result"].append(["zz", "nope"])
        elif kind == "get_not_equal":
            if d["gets"]:
                d["gets"][0]["eq"] = False
                d["gets"][0]["found"] = True
            else:
                d["gets"] = [{"node": [], "stored": ["vf.dd", [0, 1, 0]], "asked": ["vf.dd", [0, 1, 0]], "found": True,
                              "is_instance": True, "eq": False, "contains": True, "listed": True, "err": ""}]
        elif kind == "phantom_listing":
            d["umeta"].append({"node": [], "schema": "vf.zz", "in": True, "got": True})
        elif kind in ("flip_ok", "flip_ok_one_driver"):
            d["ok"] = not d["ok"]
        elif kind == "leak_reserved":
            d["uview"].append({"p": ["metador_container"], "k": "g", "v": "", "a": {}})
        elif kind == "hide_user_node":
            if len(d["uview"]) > 1:
                d["uview"].pop()
            else:
                d["uvisit"].append(["zz"])
        elif kind == "reserved_effect":
            d["weird"] = ["/metador_x"]
        elif kind == "listing":
            d["uextra"] = ["len/iter differ at /"]
        elif kind == "driver_tree_differs":
            d["tree"].append({"p": ["zz9"], "k": "g", "v": "", "a": {}})
            d["uview"].append({"p": ["zz9"], "k": "g", "v": "", "a": {}})
            d["uvisit"].append(["zz9"])
        elif kind == "driver_meta_differs":
            d["meta"][0]["content"] = "000000000000"
        elif kind == "wrong_parents":
            d["schemas"][0]["parents"] = d["schemas"][0]["parents"] + [["vf.zz", [9, 9, 9]]]
        elif kind == "jsdig":
            d["schemas"][0]["jsdig"] = "0" * 12
        elif kind == "not_validating":
            d["meta"][0]["validates"] = False
        elif kind == "wrong_provider":
            d["pkgs"][0]["name"] = "somebody-else"
        muts.append(t)
        kinds.append(kind)
    vm = common.validate_traces("Trace_Container", muts, wd, tag="_selftest", chunk=12)
    missed = [k for k, v in zip(kinds, vm) if not [x for x in v if x[1] in CLAUSES[pid]]]
    rep.parts["binding_selftest"] = {"corrupted_traces": len(muts), "rejected": len(muts) - len(missed)}
    if missed:
        rep.machinery(f"container binding self-test: corrupted traces accepted for {pid}: {missed}")


def standard_run(pid: str, tier: str, rule: str, assumptions: List[str], extra=None, nq_quick=4) -> int:
    from . import compat
    rep = Report(pid, tier)
    quick = tier == "quick"
    seed = common.seed()
    rng = random.Random(seed)
    rep.assumptions += [compat.ASSUMPTION] + assumptions
    rep.rule = rule
    wd = common.workdir(pid)
    try:
        import concurrent.futures as cf
        with cf.ThreadPoolExecutor(max_workers=2) as ex:
            fut = ex.submit(container_model, rep, wd, pid, 4 if quick else 5, 6 if quick else 8)
            js = jobs(60 if quick else 600, 18 if quick else 28, seed, nq=nq_quick if quick else 12)
            good, verd = run_container(rep, wd, pid, js)
            for j, t in good[:2]:
                rep.sample({"tid": j["tid"], "ops": [[e["op"], "/".join(e["a"].get("p", [])), "/".join(e["a"].get("q", [])),
                                                     e["a"].get("schema", ""), [d["ok"] for d in e["d"]]] for e in t[1:]]})
            acc = [t for (j, t), v in zip(good, verd) if not v]
            if pid != "C17":
                container_selftest(rep, wd, acc, rng, pid, n=8 if quick else 24)
            if extra:
                extra(rep, wd, quick, seed, rng)
            fut.result()
        container_mutants(rep, wd, pid, depth=8, num=8000 if quick else 60000)
    except common.MachineryError as e:
        rep.machinery(str(e)[:2500])
    finally:
        common.cleanup(wd)
    return rep.finish()
