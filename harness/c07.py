"""C07 — metadata comes back as stored and queries are exact."""
from .contcommon import standard_run


def run(tier: str) -> int:
    return standard_run(
        "C07", tier, nq_quick=10,
        rule=("container histories as in C06; after every step every stored object is requested by its own schema and by every "
              "ancestor schema (get, in, keys), and sampled (start node, schema, version) queries are run at container and "
              "group level; TLC compares with the declarative Query/Matches of Container.tla over the logged raw state and "
              "the plugin environment (versions 1.0.0/1.2.0/2.0.0 of one schema, 3 inheritance levels); attach outcomes "
              "(auxiliary, unknown, duplicate, invalid) are judged by Accepts"),
        assumptions=["equality oracle for get: returned object == the original instance parsed by the returned class"])
