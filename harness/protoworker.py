"""Worker: protocol-level histories of IH5Record / IH5MFRecord (open modes, patches, merge).

Same line protocol as h5worker.  Events carry the file sets parsed from bytes, the handle
state seen through the public API, and digests of the tree and of neighbour records.
"""
from __future__ import annotations

import gc
import hashlib
import json
import random
import shutil
import sys
import traceback
from pathlib import Path
from typing import Any, Dict, List, Optional

from . import compat  # noqa: F401
from . import h5lib, protolib

from metador_core.ih5.container import IH5MFRecord, IH5Record

CLOSED = {"open": False, "rw": False, "wr": False, "rname": ""}
NEIGHBOUR_SETS = [
    ("foo", ["foo2", "foo-bar", "fo"]),
    ("rec", ["rec1", "re", "rec-a"]),
    ("a-b", ["a", "a-b-c", "a-bb"]),
    ("X9", ["X", "X90", "X9-0"]),
    # names that look like parts of the file-name syntax NAME[.p<index>].ih5 (letters and digits only)
    ("step1", ["st", "step", "step10"]),
    ("ih5", ["ih", "i", "ih5p1"]),
    ("xp2", ["x", "xp", "xp20"]),
    ("p1-ih5", ["p1", "p", "p1-ih5-p2"]),
]


class Proto:
    def __init__(self, cls: str, d: Path, names: List[str], rng: random.Random, tk: h5lib.Tokens):
        self.cls = {"ih5": IH5Record, "mf": IH5MFRecord}[cls]
        self.clsname = self.jobcls = cls
        self.d, self.names, self.rng, self.tk = d, names, rng, tk
        self.km = h5lib.KeyMap(rng, False)
        self.rec: Any = None
        self.rname = ""
        self.wcount = 0
        self.big = rng.random() < 0.25      # some sessions write a dataset of more than 1 MiB now and then
        self.merged: List[Dict[str, Any]] = []   # merge targets: name, patch index at merge time

    def handle(self) -> Dict[str, Any]:
        if self.rec is None:
            return dict(CLOSED)
        rw = self.rec.mode == "r+"
        meta = self.rec.ih5_meta
        wr = bool(rw and meta and meta[-1].hdf5_hashsum is None)
        return {"open": True, "rw": rw, "wr": wr, "rname": self.rname}

    def mfkw(self, cs, move: bool = False) -> Dict[str, Any]:
        """Where the manifest of the newest of the given containers lives: IH5MFRecord accepts it at another
        place through manifest_file=...; now and then the harness moves the newest manifest to d/mfalt first."""
        if self.cls is not IH5MFRecord or not cs:
            return {}
        order = sorted(cs, key=lambda c_: (c_["idx"], c_["fn"][1]))
        c = order[-1]
        if len(order) > 1 and not c["hash"]:
            c = order[-2]     # the latest manifest belongs to the newest committed container
        mp = protolib.manifest_path(self.d, c["fn"])
        alt = self.d / "mfalt" / mp.name
        if move and mp.is_file():
            alt.parent.mkdir(exist_ok=True)
            if alt.exists():
                alt.unlink()
            mp.rename(alt)
        return {"manifest_file": alt} if (not mp.is_file() and alt.is_file()) else {}

    def view_digest(self) -> str:
        if self.rec is None:
            return ""
        v = h5lib.project(self.rec, self.km, self.tk)["view"]
        return hashlib.sha256(json.dumps(v, sort_keys=True).encode()).hexdigest()[:20]

    def act(self, a: Dict[str, Any]) -> Dict[str, Any]:
        op = a["op"]
        extra: Dict[str, Any] = {}
        if op == "open":
            if self.rec is not None:
                raise RuntimeError("harness: a handle is already open")
            # the class of this handle: the job's class, or (cross-class use: records written through IH5Record read
            # through IH5MFRecord and the other way round) the one named by the action, until the next open
            self.clsname = a.get("as", self.jobcls)
            self.cls = {"ih5": IH5Record, "mf": IH5MFRecord}[self.clsname]
            rn = a["rname"]
            cs = protolib.scan(self.d, [rn])[0]
            kw = self.mfkw(cs, move=a["mode"] in ("r", "r+", "a") and (self.rng.random() < 0.15 or bool(a.get("mfalt"))))
            try:
                if a["bylist"]:
                    fl = [protolib.container_path(self.d, c["fn"]) for c in cs]
                    self.rng.shuffle(fl)
                    rec = self.cls(fl, a["mode"], **kw)
                else:
                    rec = self.cls(self.d / rn, a["mode"], **kw)
            except BaseException:
                gc.collect()
                raise
            self.rec, self.rname = rec, rn
        elif op == "create_patch":
            self._need().create_patch()
        elif op == "commit":
            self._need().commit_patch()
        elif op == "discard":
            self._need().discard_patch()
        elif op == "write":
            # a change of the tree through the record API: random state-aware data operations
            # (datasets, groups, attributes on any node, deletions, replacements, copies, moves)
            self.wcount += 1
            r = self._need()
            if not self.handle()["wr"]:
                r.attrs["k"] = self.wcount      # must be refused: nothing is writable
                return extra
            done = 0
            view = h5lib.project(r, self.km, self.tk)["view"]
            for _ in range(8):
                e = h5lib.gen_op(self.rng, view, depth=3, values=["v1", "v2", "v3", "v4"] + (["vbig"] if self.big else []))
                try:
                    h5lib.apply_op(r, e, self.km, self.tk.pool)
                    done += 1
                    view = h5lib.project(r, self.km, self.tk)["view"]
                except Exception:
                    pass
                if done >= 1 + self.wcount % 3:
                    break
            if not done:
                r.attrs["k"] = self.wcount
        elif op == "close":
            if self.rec is not None:
                how = a.get("how", "close")
                try:
                    if how == "exit":          # leaving a `with` block normally
                        self.rec.__exit__(None, None, None)
                    elif how == "exit_exc":    # leaving a `with` block by an exception (documented: still commits and closes)
                        ex = ValueError("harness: exception inside the with block")
                        self.rec.__exit__(ValueError, ex, None)
                    else:
                        self.rec.close(commit=a["commit"])
                finally:
                    self.rec = None
                    self.rname = ""
        elif op == "open_older":
            if self.rec is not None:
                raise RuntimeError("harness: open_older while a handle is open")
            fs = [c for c in protolib.scan(self.d, [a["rname"]])[0] if c["idx"] < a["k"]]
            fl = [protolib.container_path(self.d, c["fn"]) for c in fs]
            self.rng.shuffle(fl)
            try:
                rec = self.cls(fl, a["mode"], **self.mfkw(fs))
            except BaseException:
                gc.collect()
                raise
            rec.close(commit=False)
        elif op == "delete_files":
            if self.rec is not None:
                raise RuntimeError("harness: delete_files while a handle is open")
            self.cls.delete_files(self.d / a["rname"])
        elif op == "list_records":
            # observations of the directory: record names and the files found per record name
            listed = sorted(p.name for p in self.cls.list_records(self.d))
            allrec = sorted({protolib.parse_fn(f.name)[0] for f in self.d.iterdir() if protolib.parse_fn(f.name)})
            found = []
            for rn in allrec + ["nonexistent", allrec[0][:-1] if allrec and len(allrec[0]) > 1 else "zz"]:
                exp = sorted(f.name for f in self.d.iterdir() if protolib.parse_fn(f.name) and protolib.parse_fn(f.name)[0] == rn)
                got = sorted(p.name for p in self.cls.find_files(self.d / rn))
                found.append({"name": rn, "files": got, "expected": exp})
            extra.update(listed=listed, all_records=allrec, found=found)
        elif op == "merge":
            r = self._need()
            before = json.dumps([json.loads(m.json()) for m in r.ih5_meta], sort_keys=True)
            try:
                r.merge_files(self.d / a["target"])
            finally:
                extra["meta_before"] = before
                extra["meta_after"] = json.dumps([json.loads(m.json()) for m in r.ih5_meta], sort_keys=True)
                self.last_extra = dict(extra)
            with self.cls(self.d / a["target"], "r") as m:
                v = h5lib.project(m, self.km, self.tk)["view"]
                extra["merged_vw"] = hashlib.sha256(json.dumps(v, sort_keys=True).encode()).hexdigest()[:20]
                self.merged.append({"target": a["target"], "src": self.rname,
                                    "idx": m.ih5_meta[-1].patch_index, "rec": str(m.ih5_uuid)})
        else:
            raise RuntimeError(f"harness: unknown op {op}")
        return extra

    def _need(self):
        if self.rec is None:
            raise ValueError("no open record")  # the API cannot even be called: refused
        return self.rec

    def shutdown(self):
        try:
            if self.rec is not None:
                self.rec.close(commit=False)
        except Exception:
            pass
        self.rec = None
        gc.collect()


def chain_checks(p: Proto, disk) -> List[Dict[str, Any]]:
    """Follow-up patches of the source, applied on top of each container merged from it."""
    out = []
    if p.rec is None or p.handle()["wr"]:
        return out
    for m in p.merged:
        mine = [c for c in disk if c["fn"][0] == p.rname and c["parse"]]
        if m["src"] != p.rname or not mine or mine[0]["rec"] != m["rec"]:
            continue
        later = [c for c in mine if c["idx"] > m["idx"]]
        tgt = [c for c in disk if c["fn"] == [m["target"], 0]]
        if not later or not tgt:
            continue
        files = [protolib.container_path(p.d, c["fn"]) for c in tgt + later]
        p.rng.shuffle(files)
        try:
            r = p.cls(files, "r", **p.mfkw(tgt + later))
            try:
                v = h5lib.project(r, p.km, p.tk)["view"]
                out.append({"target": m["target"], "ok": True, "exc": "",
                            "vw": hashlib.sha256(json.dumps(v, sort_keys=True).encode()).hexdigest()[:20]})
            finally:
                r.close(commit=False)
        except Exception as ex:
            out.append({"target": m["target"], "ok": False, "exc": type(ex).__name__ + ": " + str(ex)[:150], "vw": ""})
    return out


def handle_vs_disk(p: Proto) -> List[str]:
    """What the open record object reports about itself (files in patch order, user blocks, record uuid, manifest)
    compared with the containers as read from their bytes."""
    r = p.rec
    if r is None:
        return []
    mis: List[str] = []
    try:
        files = list(r.ih5_files)
        meta = list(r.ih5_meta)
        if len(files) != len(meta):
            return [f"{len(files)} files but {len(meta)} user blocks"]
        prev_idx = -1
        for f, m in zip(files, meta):
            c = protolib.parse_container(Path(f))
            if not c["parse"]:
                mis.append(f"{Path(f).name}: user block on disk does not parse")
                continue
            mem = {"rec": str(m.record_uuid), "uuid": str(m.patch_uuid), "prev": str(m.prev_patch) if m.prev_patch else "",
                   "idx": m.patch_index, "hash": str(m.hdf5_hashsum or "")}
            for k_, v_ in mem.items():
                if c[k_] != v_:
                    mis.append(f"{Path(f).name}: {k_} in memory {v_!r}, on disk {c[k_]!r}")
            if m.patch_index <= prev_idx:
                mis.append("ih5_files / ih5_meta are not in patch order")
            prev_idx = m.patch_index
            if str(r.ih5_uuid) != mem["rec"]:
                mis.append("ih5_uuid differs from the record uuid of a container")
        if p.cls is IH5MFRecord and meta:
            newest_committed = [c_ for c_ in (protolib.parse_container(Path(f_)) for f_ in files) if c_["parse"] and c_["hash"]]
            # (the manifest of a record is the one of its newest committed container; a container written through
            #  IH5Record carries none)
            if newest_committed and newest_committed[-1]["mfu"]:
                try:
                    mu = str(r.manifest.manifest_uuid)
                    if mu != newest_committed[-1]["mfu"]:
                        mis.append(f"manifest in memory {mu} is not the one of the newest committed container {newest_committed[-1]['mfu']}")
                    elif protolib.qdigest(bytes(r.manifest)) != newest_committed[-1]["mfh"]:
                        mis.append("the manifest object in memory does not serialise to the bytes whose hashsum its container records")
                except ValueError:
                    mis.append("no manifest loaded although a committed container refers to one")
    except Exception as ex:
        mis.append(f"cannot be asked: {type(ex).__name__}: {str(ex)[:100]}")
    return mis[:5]


def make_event(p: Proto, a: Dict[str, Any], ok: bool, exc: Optional[str], extra=None) -> Dict[str, Any]:
    disk, mfd, nb = protolib.scan(p.d, p.names)
    # fresh tokens are read off the post state: newest container of the record acted upon
    target = a.get("target") if a["op"] == "merge" else (a.get("rname") or p.rname or "")
    if a["op"] in ("close",):
        target = a.get("_rname_before", target)
    fr = protolib.fresh_of(protolib.newest(disk, target))
    act = {"op": a["op"], "mode": a.get("mode", ""), "rname": a.get("rname", ""),
           "bylist": bool(a.get("bylist", False)), "cls": p.clsname, "commit": bool(a.get("commit", True)),
           "target": a.get("target", ""), "fr": fr, "k": int(a.get("k", 0))}
    ev = {"op": a["op"], "a": act, "ok": ok, "exc": exc or "", "disk": disk, "mfd": mfd, "nb": nb,
          "h": p.handle(), "vw": p.view_digest(), "cls": p.clsname, "timeout": False}
    ev.update({"merged_vw": "", "meta_before": "", "meta_after": "", "listed": [], "all_records": [], "found": [],
               "chain": chain_checks(p, disk) if a["op"] in ("commit", "open") and ok else [],
               "hmis": handle_vs_disk(p)})
    if extra:
        ev.update(extra)
    return ev


SITUATIONS = {
    "absent": [],
    "uncommitted_base": [("open", "w"), ("write",), ("close", False)],
    "committed_base": [("open", "w"), ("write",), ("close", True)],
    "patched": [("open", "w"), ("write",), ("close", True), ("open", "r+"), ("write",), ("close", True)],
    "uncommitted_patch": [("open", "w"), ("write",), ("close", True), ("open", "r+"), ("write",), ("close", False)],
}


def situation_script(sit: str, rname: str) -> List[Dict[str, Any]]:
    out = []
    for s in SITUATIONS[sit]:
        if s[0] == "open":
            out.append({"op": "open", "mode": s[1], "rname": rname, "bylist": False})
        elif s[0] == "write":
            out.append({"op": "write"})
        else:
            out.append({"op": "close", "commit": s[1]})
    return out


def gen_action(rng: random.Random, p: Proto) -> Dict[str, Any]:
    h = p.handle()
    if not h["open"] and rng.random() < 0.12:
        return {"op": "delete_files", "rname": rng.choice(p.names[:3])}
    if rng.random() < 0.08:
        return {"op": "list_records"}
    if not h["open"] and rng.random() < 0.15:
        rn = rng.choice(p.names[:2])
        n = len([c for c in protolib.scan(p.d, [rn])[0]])
        if n >= 2:
            return {"op": "open_older", "rname": rn, "mode": rng.choice(["r", "r+", "a"]), "k": rng.randint(1, n - 1)}
    if not h["open"]:
        return {"op": "open", "mode": rng.choice(["r", "r+", "a", "a", "r+", "w", "x", "w-"]),
                "rname": rng.choice(p.names[:2]), "bylist": rng.random() < 0.3}
    ops = ["write"] * 4 + ["commit"] * 2 + ["create_patch"] * 2 + ["discard", "close", "close", "merge", "open"]
    op = rng.choice(ops)
    if op == "close":
        r = rng.random()
        if r < 0.2:
            return {"op": "close", "commit": True, "how": rng.choice(["exit", "exit_exc"])}
        return {"op": "close", "commit": r < 0.7}
    if op == "merge":
        return {"op": "merge", "target": rng.choice(p.names[1:])}
    if op == "open":  # opening while a handle is held is outside the protocol model: close instead
        return {"op": "close", "commit": True}
    return {"op": op}


def run_history(job: Dict[str, Any], out, scratch: Path, tk: h5lib.Tokens):
    tid = job["tid"]
    rng = random.Random(job["seed"])
    d = scratch / f"p{tid}"
    d.mkdir(parents=True, exist_ok=True)

    def emit(o):
        out.write(json.dumps(o) + "\n")
        out.flush()

    main, neigh = NEIGHBOUR_SETS[job.get("nameset", 0) % len(NEIGHBOUR_SETS)]
    names = [main, "other", "merged1", "merged2"]
    p = Proto(job["cls"], d, names, rng, tk)
    try:
        # neighbour records with prefix-related names: created once, never touched again
        for k, nb in enumerate(neigh if job.get("neighbours", True) else []):
            with p.cls(d / nb, "w") as r:
                r["n"] = k
            if k % 2 == 0:
                with p.cls(d / nb, "r+") as r:
                    r["m"] = k
        ev = make_event(p, {"op": "init"}, True, None)
        emit({"t": "end", "tid": tid, "ev": ev})
        script = job.get("script")
        n = len(script) if script is not None else job.get("nops", 14)
        for step in range(n):
            a = dict(script[step]) if script is not None else gen_action(rng, p)
            if a.get("rname") == "$main":
                a["rname"] = main
            a["_rname_before"] = p.rname
            emit({"t": "begin", "tid": tid, "i": step + 1, "e": {k: v for k, v in a.items() if not k.startswith("_")}})
            ok, exc, extra = True, None, None
            try:
                extra = p.act(a)
            except RuntimeError:
                raise
            except Exception as ex:
                ok, exc = False, type(ex).__name__ + ": " + str(ex)[:200]
                extra = getattr(p, "last_extra", None) if a["op"] == "merge" else None
            p.last_extra = None
            ev = make_event(p, a, ok, exc, extra)
            emit({"t": "end", "tid": tid, "ev": ev})
        emit({"t": "done", "tid": tid})
    except Exception:
        emit({"t": "crash", "tid": tid, "tb": traceback.format_exc()[-2000:]})
    finally:
        p.shutdown()
        shutil.rmtree(d, ignore_errors=True)


def main():
    jobs = json.loads(Path(sys.argv[1]).read_text())
    scratch = Path(sys.argv[1]).parent / (Path(sys.argv[1]).stem + "_scratch")
    scratch.mkdir(parents=True, exist_ok=True)
    tk = h5lib.Tokens(scratch)
    with open(sys.argv[2], "a") as out:
        for job in jobs:
            run_history(job, out, scratch, tk)
    shutil.rmtree(scratch, ignore_errors=True)


if __name__ == "__main__":
    main()
