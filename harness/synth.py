"""Harness-registered schema families: synthetic in-memory distributions with entry points.

Multi-version, multi-level schema families are needed to exercise version compatibility,
parent paths and providers (C07, C16, C20).  They are made known to the plugin system the
same way installed packages are: an importlib_metadata Distribution (METADATA and
entry_points.txt) whose entry points are fed to the plugin group.
"""
from __future__ import annotations

import sys
import types
from typing import Dict, List, Optional, Tuple

from . import compat  # noqa: F401

import importlib_metadata
from importlib_metadata import Distribution

_DISTS: Dict[str, "SynthDist"] = {}
_patched = False


class SynthDist(Distribution):
    def __init__(self, name: str, version: str, eps: Dict[str, List[Tuple[str, str]]]):
        self._name, self._version = name, version
        self._eps = eps  # group -> [(ep name, "module:attr")]

    def read_text(self, filename):
        if filename == "METADATA":
            return (f"Metadata-Version: 2.1\nName: {self._name}\nVersion: {self._version}\n"
                    f"Project-URL: Repository, https://example.org/{self._name}\n")
        if filename == "entry_points.txt":
            out = []
            for grp, lst in self._eps.items():
                out.append(f"[{grp}]")
                out += [f"{n} = {v}" for n, v in lst]
            return "\n".join(out) + "\n"
        return None

    def locate_file(self, path):
        return path


def _patch():
    global _patched
    if _patched:
        return
    orig = importlib_metadata.distribution

    def distribution(name):
        if name in _DISTS:
            return _DISTS[name]
        return orig(name)

    importlib_metadata.distribution = distribution
    _patched = True


def module(name: str) -> types.ModuleType:
    if name not in sys.modules:
        sys.modules[name] = types.ModuleType(name)
    return sys.modules[name]


def register_package(pkg: str, version: str, schema_classes: List[type], modname: str = "verif_synth"):
    """Register a synthetic package providing the given schema classes (Plugin.name/version)."""
    from metador_core.plugin import entrypoints
    from metador_core.plugin.types import to_ep_name
    from metador_core.plugins import schemas
    from metador_core.schema.plugins import PluginPkgMeta

    _patch()
    eps = []
    for cls in schema_classes:
        info = cls.Plugin
        attr = f"{cls.__name__}"
        # the entry point must be importable: the class' own module if it has one, else a synthetic one
        mname = cls.__module__
        mod = sys.modules.get(mname)
        if mod is None or getattr(mod, attr, None) is not cls:
            mod = module(modname)
            setattr(mod, attr, cls)
            mname = modname
        eps.append((str(to_ep_name(info.name, tuple(info.version))), f"{mname}:{attr}"))
    # besides its schemas the package brings a plugin of a third-party plugin group ("exporter"): package descriptions
    # must list every group under its own name
    mod = module(modname)
    setattr(mod, "SynthExporter", type("SynthExporter", (), {}))
    d = SynthDist(pkg, version, {"metador_schema": eps,
                                 "metador_exporter": [(str(to_ep_name("vx.e" + ("".join(ch for ch in pkg if ch.isalpha()).lower()[:12] or "x"), (0, 1, 0))), f"{modname}:SynthExporter")]})
    _DISTS[pkg] = d
    entrypoints.pkg_meta[pkg] = PluginPkgMeta.for_package(pkg)
    for ep in d.entry_points.select(group="metador_schema"):
        schemas._add_ep(ep.name, ep)
    return d
