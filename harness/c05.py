"""C05 — merge materialises the overlay view and continues the patch chain."""
from __future__ import annotations

import random

from . import common, compat, ih5common as X, protocommon as PC
from .common import Report

CLAUSES = {"merged_view_eq_source_view", "merge_leaves_source_object_unchanged", "chain_continues_on_merged"}


def run(tier: str) -> int:
    rep = Report("C05", tier)
    quick = tier == "quick"
    seed = common.seed()
    rng = random.Random(seed)
    rep.assumptions += [compat.ASSUMPTION]
    rep.rule = ("records with 0-3 patches (writes, deletions, replacements) merged at various points, then patched further; "
                "merged container opened alone and as base of the follow-up patches of the source; TLC checks the merge "
                "action of IH5Record!Step (refusal while a patch is open, exact new files, source untouched) and the view "
                "clauses; distinct = distinct action sequences; non-trivial = contains a successful merge")
    wd = common.workdir("C05")
    try:
        # model: View(Merged(files)) = View(files) in every reachable overlay state; Merge in the protocol machine
        X.overlay_exhaustive(rep, wd, "overlay_merge_eq_view", "Spec", 5 if quick else 6, 3)
        PC.record_model(rep, wd, 7 if quick else 9, invs=["RecordsValid"], label="merge_in_protocol_model")
        jobs = PC.merge_jobs(25 if quick else 300, seed) + PC.random_proto_jobs(15 if quick else 200, 24, seed + 9, start=30000) + \
            PC.cross_class_jobs(seed, start=60000)
        good, verd = [], []
        g, v = PC.run_validate(rep, wd, jobs, "merge_histories", "harness.protoworker", only=None)
        # merge-related clauses belong to C05; protocol clauses count only on merge events
        rep.violations = [x for x in rep.violations
                          if any(c in x["what"] for c in CLAUSES) or " op=merge " in x["what"]]
        merges = sum(1 for j, t in g for e in t if e["op"] == "merge" and e["ok"])
        refused = sum(1 for j, t in g for e in t if e["op"] == "merge" and not e["ok"])
        chains = sum(len(e.get("chain", [])) for j, t in g for e in t)
        rep.parts["merge_histories"].update(successful_merges=merges, refused_merges=refused, chain_continuation_checks=chains)
        rep.nontrivial = {s for s in rep.nontrivial}
        for j, t in g[:2]:
            rep.sample({"cls": j["cls"], "actions": [[e["op"], e["a"].get("mode", ""), e["a"].get("target", ""), e["ok"]] for e in t[1:]]})
        if merges == 0 or chains == 0:
            rep.machinery(f"vacuous: {merges} merges, {chains} chain checks")
        acc = [t for (j, t), vv in zip(g, v) if not vv]
        PC.proto_selftest(rep, wd, acc, rng, n=8)
    except common.MachineryError as e:
        rep.machinery(str(e)[:2500])
    finally:
        common.cleanup(wd)
    return rep.finish()
