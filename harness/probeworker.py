"""Worker: corruption probes (C04) and crash / torn-write probes (C11) on real IH5 file sets.

A job builds a real record with a seeded history, then derives many damaged copies of
its directory; each copy is described from its bytes and opened with the real class.
The verdict (does the observed outcome agree with the specification's Valid / allowed
crash outcomes) is taken by TLC from the logged facts (Trace_IH5Record.tla).
"""
from __future__ import annotations

import gc
import hashlib
import json
import os
import random
import shutil
import signal
import subprocess
import sys
import time
import traceback
from pathlib import Path
from typing import Any, Dict, List, Optional

from . import compat  # noqa: F401
from . import h5lib, protolib
from .protoworker import CLOSED

from metador_core.ih5.container import IH5MFRecord, IH5Record

CLS = {"ih5": IH5Record, "mf": IH5MFRecord}


def view_digest(rec, km, tk) -> str:
    v = h5lib.project(rec, km, tk)["view"]
    return hashlib.sha256(json.dumps(v, sort_keys=True).encode()).hexdigest()[:20]


def build_record(cls, d: Path, name: str, rng: random.Random, km, tk, npatches: int, nops: int,
                 leave_uncommitted: bool = False, big: bool = False):
    """A real record produced by a random history: base + npatches patches."""
    rec = cls(d / name, "w")
    view = h5lib.project(rec, km, tk)["view"]
    for k in range(npatches + 1):
        for _ in range(nops):
            e = h5lib.gen_op(rng, view, depth=2, values=["v1", "v2", "v3", "v8"] + (["vbig"] if big else []))
            try:
                h5lib.apply_op(rec, e, km, tk.pool)
            except Exception:
                pass
            view = h5lib.project(rec, km, tk)["view"]
        last = k == npatches
        if last and leave_uncommitted:
            break
        rec.commit_patch()
        if not last:
            rec.create_patch()
    vw = view_digest(rec, km, tk)
    rec.close(commit=False)
    return vw


def try_open(cls, files: List[Path], km, tk, mode="r"):
    """(ok, view digest or '', newest committed?)."""
    gc.collect()
    try:
        rec = cls(list(files), mode)
    except Exception as ex:
        gc.collect()
        return False, "", False, type(ex).__name__
    try:
        vw = view_digest(rec, km, tk)
        meta = rec.ih5_meta
        committed = meta[-1].hdf5_hashsum is not None
        return True, vw, committed, ""
    except Exception as ex:
        return False, "", False, "view:" + type(ex).__name__
    finally:
        try:
            rec.close(commit=False)
        except Exception:
            pass
        gc.collect()


def probe_event(cls_name: str, d: Path, name: str, km, tk, what: str) -> Dict[str, Any]:
    disk, mfd, nb = protolib.scan(d, [name])
    files = [protolib.container_path(d, c["fn"]) for c in disk]
    random.Random(len(what)).shuffle(files)
    ok, vw, committed, exc = try_open(CLS[cls_name], files, km, tk)
    return {"op": "probe", "what": what, "cls": cls_name, "ok": ok, "exc": exc, "disk": disk, "mfd": mfd,
            "intact": what.startswith("intact"),     # the record as its history produced it: must be valid
            "nb": nb, "h": dict(CLOSED), "vw": vw, "timeout": False,
            "a": {"op": "probe"}, "merged_vw": "", "meta_before": "", "meta_after": "", "chain": [], "listed": [], "all_records": [], "found": [], "hmis": []}


def rewrite_ub(path: Path, edit):
    b = bytearray(path.read_bytes())
    head = bytes(b[:1024]).decode("utf-8", errors="replace")
    parts = head.split("\n")
    js = parts[2][: parts[2].index("\x00")]
    ub = json.loads(js)
    edit(ub)
    data = (f"{parts[0]}\n{parts[1]}\n" + json.dumps(ub)).encode() + b"\x00"
    b[: len(data)] = data
    for k in range(len(data), 1024):
        b[k] = 0
    path.write_bytes(bytes(b))


def corruption_probes(job: Dict[str, Any], emit, scratch: Path, tk):
    rng = random.Random(job["seed"])
    cls_name = job["cls"]
    cls = CLS[cls_name]
    km = h5lib.KeyMap(rng, False)
    base = scratch / f"c{job['tid']}"
    src = base / "src"
    src.mkdir(parents=True)
    name = "rec"
    npatches = job.get("npatches", 2)
    build_record(cls, src, name, rng, km, tk, npatches, job.get("nops", 4),
                 leave_uncommitted=job.get("uncommitted_tail", False),
                 big=bool(job.get("big")) and not job.get("all_bytes"))     # containers of more than 1 MiB
    # a fork of the record (same base and first patches, different last patch) and a foreign record
    fork = base / "fork"
    shutil.copytree(src, fork)
    try:
        for dd, val in ((src, 1), (fork, 2)):
            if not job.get("uncommitted_tail", False):
                with cls(dd / name, "r+") as r:
                    r.attrs["forkmark"] = val
    except Exception as ex:
        # the record just built does not open again: judged like any other probe (a valid set must open)
        emit({"t": "end", "tid": job["tid"], "ev": {**probe_event(cls_name, src, name, km, tk, "intact"), "op": "init"}})
        emit({"t": "begin", "tid": job["tid"], "i": 1, "e": {"op": "probe", "what": "intact record, reopened"}})
        emit({"t": "end", "tid": job["tid"], "ev": probe_event(cls_name, src, name, km, tk,
                                                               f"intact record, reopened ({type(ex).__name__}: {str(ex)[:80]})")})
        emit({"t": "done", "tid": job["tid"]})
        shutil.rmtree(base, ignore_errors=True)
        return
    foreign = base / "foreign"
    foreign.mkdir()
    build_record(cls, foreign, name, rng, km, tk, npatches + 1, 2)
    emit({"t": "end", "tid": job["tid"], "ev": {**probe_event(cls_name, src, name, km, tk, "intact"), "op": "init"}})
    disk0, mfd0, _ = protolib.scan(src, [name])
    work = base / "work"
    n = 0

    def fresh():
        if work.exists():
            shutil.rmtree(work)
        shutil.copytree(src, work)
        return work

    def probe(what):
        nonlocal n
        n += 1
        emit({"t": "begin", "tid": job["tid"], "i": n, "e": {"op": "probe", "what": what}})
        emit({"t": "end", "tid": job["tid"], "ev": probe_event(cls_name, work, name, km, tk, what)})

    fresh()
    probe("intact copy")
    committed = [c for c in disk0 if c["hash"]]
    budget = job.get("positions", 40)
    for c in committed:
        p = protolib.container_path(src, c["fn"])
        size = p.stat().st_size
        pos = set(range(1024, min(size, 1024 + 24))) | set(range(max(1024, size - 24), size))
        if job.get("all_bytes"):
            pos |= set(range(1024, size))
        else:
            pos |= {rng.randrange(1024, size) for _ in range(budget)}
        for x in sorted(pos):
            w = fresh()
            q = protolib.container_path(w, c["fn"])
            b = bytearray(q.read_bytes())
            b[x] ^= 1 << rng.randrange(8)
            q.write_bytes(bytes(b))
            probe(f"flip payload byte {x} of {q.name}")
        for cut in (1, 7, size // 3):
            w = fresh()
            q = protolib.container_path(w, c["fn"])
            q.write_bytes(q.read_bytes()[: size - cut])
            probe(f"truncate {q.name} by {cut}")
        for add in (b"\x00", b"junk" * 5):
            w = fresh()
            q = protolib.container_path(w, c["fn"])
            q.write_bytes(q.read_bytes() + add)
            probe(f"extend {q.name} by {len(add)}")
    for c in disk0:
        # removal of a chain element
        w = fresh()
        protolib.container_path(w, c["fn"]).unlink()
        probe(f"remove {c['fn']}")
        # substitution by the container of the fork / of a foreign record at the same position
        for other, label in ((fork, "fork"), (foreign, "foreign")):
            op = protolib.container_path(other, c["fn"])
            if op.exists():
                w = fresh()
                shutil.copy(op, protolib.container_path(w, c["fn"]))
                mp = protolib.manifest_path(other, c["fn"])
                if mp.exists():
                    shutil.copy(mp, protolib.manifest_path(w, c["fn"]))
                probe(f"substitute {c['fn']} by {label}")
        # an additional container: the fork's / foreign newest added as a further patch
        for other, label in ((fork, "fork"), (foreign, "foreign")):
            w = fresh()
            od, _, _ = protolib.scan(other, [name])
            oc = protolib.newest(od, name)
            shutil.copy(protolib.container_path(other, oc["fn"]), protolib.container_path(w, [name, 77]))
            probe(f"add newest of {label} as p77")
            break
        # duplicated container (same patch_uuid twice)
        w = fresh()
        shutil.copy(protolib.container_path(w, c["fn"]), protolib.container_path(w, [name, 88]))
        probe(f"duplicate {c['fn']} as p88")
        # user block edits
        others = [d for d in disk0 if d["fn"] != c["fn"]]
        edits = [("idx+5", lambda ub: ub.__setitem__("patch_index", ub["patch_index"] + 5)),
                 ("rec:=foreign", lambda ub: ub.__setitem__("record_uuid", "00000000-0000-1000-8000-000000000000")),
                 ("hash:=null", lambda ub: ub.__setitem__("hdf5_hashsum", None)),
                 ("prev:=null", lambda ub: ub.__setitem__("prev_patch", None))]
        if others:
            o = rng.choice(others)
            edits += [("uuid:=other", lambda ub, o=o: ub.__setitem__("patch_uuid", o["uuid"])),
                      ("prev:=other", lambda ub, o=o: ub.__setitem__("prev_patch", o["uuid"])),
                      ("idx:=other", lambda ub, o=o: ub.__setitem__("patch_index", o["idx"]))]
        for label, ed in edits:
            w = fresh()
            rewrite_ub(protolib.container_path(w, c["fn"]), ed)
            probe(f"user block of {c['fn']}: {label}")
        for x in sorted({0, 3, 8, 9, rng.randrange(10, 200), rng.randrange(10, 300)}):
            w = fresh()
            q = protolib.container_path(w, c["fn"])
            b = bytearray(q.read_bytes())
            b[x] ^= 0x20
            q.write_bytes(bytes(b))
            probe(f"flip user block byte {x} of {q.name}")
    if cls_name == "mf":
        for m in mfd0:
            mp = protolib.manifest_path(src, m["fn"])
            size = mp.stat().st_size
            w = fresh()
            protolib.manifest_path(w, m["fn"]).unlink()
            probe(f"remove manifest of {m['fn']}")
            for x in sorted({0, size - 1, size - 2, rng.randrange(size), rng.randrange(size)}):
                w = fresh()
                q = protolib.manifest_path(w, m["fn"])
                b = bytearray(q.read_bytes())
                b[x] ^= 0x01
                q.write_bytes(bytes(b))
                probe(f"flip manifest byte {x} of {q.name}")
            w = fresh()
            q = protolib.manifest_path(w, m["fn"])
            q.write_bytes(q.read_bytes() + b"\n")
            probe(f"extend manifest of {m['fn']}")
            fm = protolib.manifest_path(fork, m["fn"])
            if fm.exists():
                w = fresh()
                shutil.copy(fm, protolib.manifest_path(w, m["fn"]))
                probe(f"manifest of {m['fn']} from fork")
    emit({"t": "done", "tid": job["tid"]})
    shutil.rmtree(base, ignore_errors=True)


# --------------------------------------------------------------------------------------
# crash probes


def crash_event(cls_name, d: Path, name: str, km, tk, frozen: Dict[str, str], cvw: str, nvw: str, what: str,
                cvws: Optional[List[str]] = None, by_hash: bool = False):
    """Describe and open a directory as left behind by a crash."""
    disk, mfd, nb = protolib.scan(d, [name])
    changed = [f for f, dig in frozen.items()
               if not (d / f).exists() or hashlib.sha256((d / f).read_bytes()).hexdigest() != dig]
    frozen_ok = not changed
    if by_hash:  # the containers that carry a commit hash
        committed_files = [protolib.container_path(d, c["fn"]) for c in disk if c["parse"] and c["hash"]]
    else:        # the containers that were committed before the interrupted action started
        committed_files = [d / f for f in frozen if f.endswith(".ih5")]
    sub_ok, sub_vw, _, sub_exc = try_open(IH5Record, committed_files, km, tk) if committed_files else (False, "", False, "nofiles")
    allf = [protolib.container_path(d, c["fn"]) for c in disk]
    full_ok, full_vw, full_comm, full_exc = try_open(CLS[cls_name], allf, km, tk)
    # a recovery attempt after the crash: continue writing from the committed containers only.  The
    # interrupted patch file is in the way, so this may well be refused -- but it must not damage anything.
    if committed_files and len(allf) > len(committed_files):
        gc.collect()
        try:
            r_ = CLS[cls_name](list(committed_files), "r+")
            r_.close(commit=False)
        except Exception:
            pass
        gc.collect()
        changed = [f for f, dig in frozen.items()
                   if not (d / f).exists() or hashlib.sha256((d / f).read_bytes()).hexdigest() != dig]
        frozen_ok = not changed
        if frozen_ok:
            sub2 = try_open(IH5Record, committed_files, km, tk)
            if not sub2[0] or sub2[1] != sub_vw:
                sub_ok, sub_vw, sub_exc = False, sub2[1], "after recovery attempt: " + sub2[3]
    # ... and a writer that only knows an older state (all but the newest committed container): the place of its
    # next patch is taken by a committed file, so it must be refused, and in no case may it damage anything
    ordered = sorted(committed_files, key=lambda f_: (protolib.parse_fn(f_.name) or ["", 0])[1])
    if len(ordered) >= 2 and frozen_ok:
        gc.collect()
        try:
            r_ = CLS[cls_name](list(ordered[:-1]), "r+")
            r_.close(commit=False)
        except Exception:
            pass
        gc.collect()
        changed = [f for f, dig in frozen.items()
                   if not (d / f).exists() or hashlib.sha256((d / f).read_bytes()).hexdigest() != dig]
        frozen_ok = not changed
        if frozen_ok:
            sub3 = try_open(IH5Record, committed_files, km, tk)
            if not sub3[0] or sub3[1] != sub_vw:
                sub_ok, sub_vw, sub_exc = False, sub3[1], "after a stale writer's attempt: " + sub3[3]
    return {"op": "crash_probe", "what": what, "cls": cls_name, "frozen_ok": frozen_ok,
            "sub_ok": sub_ok, "sub_vw": sub_vw, "sub_exc": sub_exc,
            "full_ok": full_ok, "full_vw": full_vw, "full_committed": full_comm, "full_exc": full_exc,
            "changed": changed, "full_sub_vw": sub_vw, "cvw": cvw, "nvw": nvw, "cvws": cvws or [cvw],
            "ok": True, "exc": "", "disk": disk, "mfd": mfd, "nb": nb, "h": dict(CLOSED), "vw": "",
            "timeout": False, "a": {"op": "crash_probe"}, "merged_vw": "", "meta_before": "", "meta_after": "", "chain": [], "listed": [], "all_records": [], "found": [], "hmis": []}


def file_digests(d: Path) -> Dict[str, str]:
    return {f.name: hashlib.sha256(f.read_bytes()).hexdigest() for f in sorted(d.iterdir()) if f.is_file()}


def crash_probes(job: Dict[str, Any], emit, scratch: Path, tk):
    """Snapshots at every API boundary of a patching history + every torn user-block write."""
    rng = random.Random(job["seed"])
    cls_name = job["cls"]
    cls = CLS[cls_name]
    km = h5lib.KeyMap(rng, False)
    base = scratch / f"k{job['tid']}"
    live = base / "live"
    live.mkdir(parents=True)
    snap = base / "snap"
    name = "rec"
    n = 0

    def probe(d, frozen, cvw, nvw, what):
        nonlocal n
        n += 1
        emit({"t": "begin", "tid": job["tid"], "i": n, "e": {"op": "crash_probe", "what": what}})
        emit({"t": "end", "tid": job["tid"], "ev": crash_event(cls_name, d, name, km, tk, frozen, cvw, nvw, what)})

    def snapshot():
        if snap.exists():
            shutil.rmtree(snap)
        shutil.copytree(live, snap)
        return snap

    # committed starting point
    rec = cls(live / name, "w")
    view = h5lib.project(rec, km, tk)["view"]
    for _ in range(3):
        e = h5lib.gen_op(rng, view, depth=2, values=["v1", "v2", "v3"])
        try:
            h5lib.apply_op(rec, e, km, tk.pool)
        except Exception:
            pass
        view = h5lib.project(rec, km, tk)["view"]
    rec.commit_patch()
    cvw = view_digest(rec, km, tk)
    frozen = file_digests(live)
    emit({"t": "end", "tid": job["tid"], "ev": {**crash_event(cls_name, live, name, km, tk, frozen, cvw, "", "start"), "op": "init"}})
    for round_ in range(job.get("rounds", 2)):
        rec.create_patch()
        probe(snapshot(), frozen, cvw, "", f"round {round_}: after create_patch")
        for k in range(job.get("nops", 4)):
            e = h5lib.gen_op(rng, view, depth=2, values=["v1", "v2", "v3"])
            try:
                h5lib.apply_op(rec, e, km, tk.pool)
            except Exception:
                pass
            view = h5lib.project(rec, km, tk)["view"]
            try:
                rec.__files__[-1].flush() if hasattr(rec, "__files__") else None
            except Exception:
                pass
            probe(snapshot(), frozen, cvw, "", f"round {round_}: after op {k} {e['op']}")
        nvw = view_digest(rec, km, tk)
        newest_path = rec.ih5_files[-1]
        before = snapshot()
        old_ub = (before / newest_path.name).read_bytes()[:1024]
        rec.commit_patch()
        after_bytes = newest_path.read_bytes()
        new_ub = after_bytes[:1024]
        # torn write of the user block: payload already final, first k bytes of the new block
        end = max(len(new_ub.rstrip(b"\x00")), len(old_ub.rstrip(b"\x00"))) + 2
        ks = range(0, end) if job.get("all_prefixes", True) else sorted({rng.randrange(end) for _ in range(30)} | {0, end - 1})
        torn = base / "torn"
        mf_live = protolib.manifest_path(live, protolib.parse_fn(newest_path.name))
        for k in ks:
            if torn.exists():
                shutil.rmtree(torn)
            shutil.copytree(live, torn)
            (torn / newest_path.name).write_bytes(new_ub[:k] + old_ub[k:] + after_bytes[1024:])
            tm = protolib.manifest_path(torn, protolib.parse_fn(newest_path.name))
            if tm.exists():
                tm.unlink()  # the manifest is written after the user block
            probe(torn, frozen, cvw, nvw, f"round {round_}: torn user block write, {k} bytes")
        if mf_live.exists():
            # crash between user block and manifest write / during the manifest write
            mb = mf_live.read_bytes()
            for cut in sorted({0, 1, len(mb) // 2, len(mb) - 1}):
                if torn.exists():
                    shutil.rmtree(torn)
                shutil.copytree(live, torn)
                protolib.manifest_path(torn, protolib.parse_fn(newest_path.name)).write_bytes(mb[:cut])
                probe(torn, frozen, cvw, nvw, f"round {round_}: manifest torn at {cut}")
        cvw = nvw
        frozen = file_digests(live)
        probe(snapshot(), frozen, cvw, "", f"round {round_}: after commit")
    rec.close(commit=False)
    emit({"t": "done", "tid": job["tid"]})
    shutil.rmtree(base, ignore_errors=True)


# --- SIGKILL of a child process running a patching history ---------------------------

CHILD = r"""
import sys, json, random, hashlib
sys.path.insert(0, %(verif)r)
from harness import compat, h5lib
from harness.probeworker import CLS, view_digest
from pathlib import Path
d = Path(%(dir)r); cls = CLS[%(cls)r]; rng = random.Random(%(seed)d)
km = h5lib.KeyMap(rng, False); tk = h5lib.Tokens(d.parent)
ann = open(%(ann)r, "a")
def say(**kw):
    ann.write(json.dumps(kw) + "\n"); ann.flush()
rec = cls(d / "rec", "r+")
view = h5lib.project(rec, km, tk)["view"]
say(t="ready")
while True:
    for _ in range(rng.randint(1, 5)):
        e = h5lib.gen_op(rng, view, depth=2, values=["v1", "v2", "v3"])
        try: h5lib.apply_op(rec, e, km, tk.pool)
        except Exception: pass
        view = h5lib.project(rec, km, tk)["view"]
    say(t="committing", vw=view_digest(rec, km, tk))
    rec.commit_patch()
    say(t="committed", vw=view_digest(rec, km, tk))
    rec.create_patch()
"""


def kill_probes(job: Dict[str, Any], emit, scratch: Path, tk):
    rng = random.Random(job["seed"])
    cls_name = job["cls"]
    cls = CLS[cls_name]
    km = h5lib.KeyMap(rng, False)
    base = scratch / f"s{job['tid']}"
    n = 0
    first = True
    for k in range(job.get("kills", 5)):
        d = base / f"run{k}"
        d.mkdir(parents=True)
        with cls(d / "rec", "w") as r:
            r["x"] = 1
            r.attrs["k"] = 2
        with cls(d / "rec", "r") as r:
            cvw = view_digest(r, km, tk)
        frozen = file_digests(d)
        if first:
            emit({"t": "end", "tid": job["tid"], "ev": {**crash_event(cls_name, d, "rec", km, tk, frozen, cvw, "", "start"), "op": "init"}})
            first = False
        ann = base / f"ann{k}.jsonl"
        ann.write_text("")
        code = CHILD % {"verif": str(Path(__file__).resolve().parent.parent), "dir": str(d), "cls": cls_name,
                        "seed": rng.randrange(10**9), "ann": str(ann)}
        env = dict(os.environ, HDF5_USE_FILE_LOCKING="FALSE")
        p = subprocess.Popen([sys.executable, "-c", code], env=env, stdout=subprocess.DEVNULL, stderr=subprocess.DEVNULL)
        t0 = time.time()
        while time.time() - t0 < 20 and "ready" not in ann.read_text():
            time.sleep(0.01)
        time.sleep(rng.uniform(0.0, job.get("max_delay", 0.25)))
        p.send_signal(signal.SIGKILL)
        p.wait()
        lines = [json.loads(l) for l in ann.read_text().splitlines() if l.strip().endswith("}")]
        nvw = ""
        # what the child had announced: every committed state, and possibly a commit in progress
        committed_states = [cvw] + [l["vw"] for l in lines if l["t"] == "committed"]
        if lines and lines[-1]["t"] == "committing":
            nvw = lines[-1]["vw"]
        # files frozen for sure: those of the last announced commit cannot be known byte-wise by the parent,
        # so the byte-identity claim is checked for the files committed before the child started
        n += 1
        emit({"t": "begin", "tid": job["tid"], "i": n, "e": {"op": "crash_probe", "what": f"kill {k}"}})
        ev = crash_event(cls_name, d, "rec", km, tk, frozen, committed_states[-1], nvw,
                         f"SIGKILL after {len(lines)} announcements",
                         cvws=[committed_states[-1]] + ([nvw] if nvw else []), by_hash=True)
        emit({"t": "end", "tid": job["tid"], "ev": ev})
        shutil.rmtree(d, ignore_errors=True)
    emit({"t": "done", "tid": job["tid"]})
    shutil.rmtree(base, ignore_errors=True)


def main():
    jobs = json.loads(Path(sys.argv[1]).read_text())
    scratch = Path(sys.argv[1]).parent / (Path(sys.argv[1]).stem + "_scratch")
    scratch.mkdir(parents=True, exist_ok=True)
    tk = h5lib.Tokens(scratch)
    with open(sys.argv[2], "a") as out:
        def emit(o):
            out.write(json.dumps(o) + "\n")
            out.flush()
        for job in jobs:
            try:
                {"corruption": corruption_probes, "crash": crash_probes, "kill": kill_probes}[job["kind"]](job, emit, scratch, tk)
            except Exception:
                emit({"t": "crash", "tid": job["tid"], "tb": traceback.format_exc()[-2500:]})
    shutil.rmtree(scratch, ignore_errors=True)


if __name__ == "__main__":
    main()
