"""Worker for C10: real IH5MFRecord histories with manifest observation, stubs, lock-step patches."""
from __future__ import annotations

import json
import random
import shutil
import sys
import traceback
from pathlib import Path
from typing import Any, Dict, List

from . import compat  # noqa: F401
from . import h5lib, protolib

from metador_core.ih5.container import IH5MFRecord

EXIST_OPS = {"create_group": 3, "set_dataset": 4, "delete": 3, "set_attr": 3, "del_attr": 1.5,
             "copy": 0, "move": 0, "require_group": 0.5}


def stubify(view):
    """Placeholder values (h5py.Empty) read back as the token EMPTY."""
    out = []
    for n in view:
        m = dict(n)
        if m["k"] == "d" and str(m["v"]).startswith("?empty"):
            m["v"] = "EMPTY"
        m["a"] = {k: ("EMPTY" if str(v).startswith("?empty") else v) for k, v in m["a"].items()}
        out.append(m)
    return out


def manifest_facts(d: Path, rec, km) -> Dict[str, Any]:
    """The newest container's manifest sidecar and user block extension, read from bytes."""
    fs = rec.ih5_files
    newest = fs[-1]
    c = protolib.parse_container(newest)
    mp = Path(str(newest) + "mf.json")
    f = {"exists": mp.is_file(), "dig": "", "uuid": "", "ub_mfu": c["mfu"], "ub_mfh": c["mfh"], "skel": [], "exts": ""}
    if mp.is_file():
        b = mp.read_bytes()
        js = json.loads(b)
        f["dig"] = protolib.qdigest(b)
        f["uuid"] = str(js["manifest_uuid"])
        f["exts"] = json.dumps(js["manifest_exts"], sort_keys=True)
        for path, info in js["skeleton"].items():
            p = [km.abs_key(s) for s in path.strip("/").split("/")] if path != "/" else []
            f["skel"].append({"p": p, "k": "d" if info["node_type"] == "dataset" else "g",
                              "a": sorted(km.abs_attr(a) for a in info["attrs"])})
    return f


def run_history(job: Dict[str, Any], emit, scratch: Path, tk: h5lib.Tokens):
    tid = job["tid"]
    rng = random.Random(job["seed"])
    km = h5lib.KeyMap(rng, job.get("concrete", False))
    base = scratch / f"s{tid}"
    R, S, D, C = base / "real", base / "stub", base / "direct", base / "combined"
    for x in (R, S):
        x.mkdir(parents=True)
    n = 0

    def ev(o):
        nonlocal n
        n += 1
        emit({"t": "end", "tid": tid, "ev": o})

    rec = IH5MFRecord(R / "rec", "w")
    view = h5lib.project(rec, km, tk)["view"]
    ev({"op": "init", "dview": view})
    npatches = job.get("npatches", 2)
    sparse = job.get("sparse", False)
    for k in range(npatches + 1):
        # sparse histories: patches that change very little (nothing, one attribute, one node)
        nk = rng.choice([0, 1, 1, 1, 2]) if sparse and k > 0 else job.get("nops", 5)
        w = {"set_attr": 8, "del_attr": 4, "copy": 0.5, "move": 0.5} if sparse and k > 0 else None
        for _ in range(nk):
            e = h5lib.gen_op(rng, view, depth=3, values=["v1", "v2", "v3", "v4", "v5"], weights=w)
            if sparse and k > 0 and e["op"] in ("set_attr", "del_attr") and rng.random() < 0.5:
                e["p"] = []  # the root group
            try:
                h5lib.apply_op(rec, e, km, tk.pool)
            except Exception:
                pass
            view = h5lib.project(rec, km, tk)["view"]
        if k > 0 and rng.random() < 0.3:
            # the session ends with the patch still open; a later session continues and commits it
            # (inherited manifest extensions must survive this, too)
            rec.close(commit=False)
            rec = IH5MFRecord(R / "rec", rng.choice(["r+", "a"]))
        override = ""
        kw = {}
        if rng.random() < 0.4:
            x = {"packer": {"n": rng.randrange(100), "name": "x"}} if rng.random() < 0.7 else {}
            override = json.dumps(x, sort_keys=True)
            kw["manifest_exts"] = x
        rec.commit_patch(**kw)
        ev({"op": "mf_commit", "dview": view, "override": override, "mf": manifest_facts(R, rec, km)})
        if rng.random() < 0.5:
            # a redundant commit is refused; the manifest of the committed container must stay as it is
            try:
                rec.commit_patch(**({"manifest_exts": {"ignored": 1}} if rng.random() < 0.5 else {}))
            except Exception:
                pass
            ev({"op": "mf_commit", "dview": view, "override": "", "mf": manifest_facts(R, rec, km), "after_refused": True})
        if k < npatches:
            rec.create_patch()
    mf_file = Path(str(rec.ih5_files[-1]) + "mf.json")
    rec.close()
    # --- stub
    ok, exc, sview, merge_refused = True, "", [], False
    try:
        stub = IH5MFRecord.create_stub(S / "rec", mf_file)
        sview = stubify(h5lib.project(stub, km, tk)["view"])
        try:
            stub.merge_files(S / "merged")
        except Exception:
            merge_refused = True
        stub.close()
    except Exception as ex:
        ok, exc = False, type(ex).__name__ + ": " + str(ex)[:200]
    ev({"op": "stub_created", "ok": ok, "exc": exc, "dview": view, "sview": sview, "merge_refused": merge_refused})
    if not ok:
        emit({"t": "done", "tid": tid})
        shutil.rmtree(base, ignore_errors=True)
        return
    # --- the same existence-based update, directly and over the stub
    shutil.copytree(R, D)
    drec = IH5MFRecord(D / "rec", "r+")
    srec = IH5MFRecord(S / "rec", "r+")
    dview = view
    for _ in range(job.get("patch_ops", 6)):
        e = h5lib.gen_op(rng, dview, depth=3, values=["v6", "v7", "v8", "v1"], weights=EXIST_OPS)
        if e["op"] in ("copy", "move"):
            continue
        emit({"t": "begin", "tid": tid, "i": n, "e": e})
        oks = []
        for r in (drec, srec):
            try:
                h5lib.apply_op(r, e, km, tk.pool)
                oks.append(True)
            except Exception:
                oks.append(False)
        dview = h5lib.project(drec, km, tk)["view"]
        ev({"op": "patch_op", "e": {k: e[k] for k in ("op", "p", "q", "key", "v")}, "ok_direct": oks[0], "ok_stub": oks[1],
            "dview": dview, "sview": stubify(h5lib.project(srec, km, tk)["view"])})
    drec.close()
    spatch = srec.ih5_files[-1]
    srec.close()
    # --- the stub's patch appended to the real containers
    shutil.copytree(R, C)
    shutil.copy(spatch, C / spatch.name)
    smf = Path(str(spatch) + "mf.json")
    if smf.exists():
        shutil.copy(smf, C / smf.name)
    ok, exc, cview = True, "", []
    try:
        with IH5MFRecord(C / "rec", "r") as crec:
            cview = h5lib.project(crec, km, tk)["view"]
    except Exception as ex:
        ok, exc = False, type(ex).__name__ + ": " + str(ex)[:200]
    ev({"op": "combined", "ok": ok, "exc": exc, "cview": cview, "dview": dview})
    emit({"t": "done", "tid": tid})
    shutil.rmtree(base, ignore_errors=True)


def main():
    jobs = json.loads(Path(sys.argv[1]).read_text())
    scratch = Path(sys.argv[1]).parent / (Path(sys.argv[1]).stem + "_scratch")
    scratch.mkdir(parents=True, exist_ok=True)
    tk = h5lib.Tokens(scratch)
    with open(sys.argv[2], "a") as out:
        def emit(o):
            out.write(json.dumps(o) + "\n")
            out.flush()
        for job in jobs:
            try:
                run_history(job, emit, scratch, tk)
            except Exception:
                emit({"t": "crash", "tid": job["tid"], "tb": traceback.format_exc()[-2500:]})
    shutil.rmtree(scratch, ignore_errors=True)


if __name__ == "__main__":
    main()
