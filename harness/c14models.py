"""Model families used to concretise PartialMerge values (module level: annotations must be resolvable)."""
from typing import List as L, Optional as O, Set as S

from . import compat  # noqa: F401

from pydantic import BaseModel
from metador_core.schema import MetadataSchema
from metador_core.schema.partial import PartialFactory


class N1(MetadataSchema):
    p: O[int]
    q: O[bool]

class N2(N1):
    r: O[int]

class M(MetadataSchema):
    a: O[int]
    b: O[bool]
    l: L[int] = []
    s: S[int] = set()
    n: O[N1]

class PlainBase(BaseModel):
    pass

class PN1(PlainBase):
    p: O[str]
    q: O[float]

class PN2(PN1):
    r: O[str]

class PM(PlainBase):
    a: O[str]
    b: O[float]
    l: L[str] = []
    s: S[str] = set()
    n: O[PN1]

class Z0(MetadataSchema):
    pass

class PZ0(PlainBase):
    pass

class PlainPartials(PartialFactory):
    base_model = PlainBase


def families():
    fam1 = dict(name="MetadataSchema", M=M, N={1: N1, 2: N2}, P=M.Partial, NP={1: N1.Partial, 2: N2.Partial},
                atom={"a": {"0": 0, "7": 7}, "b": {"F": False, "T": True}, "p": {"0": 0, "7": 7}, "q": {"F": False}, "r": {"0": 0, "7": 7}},
                elem={"0": 0, "7": 7}, yaml=True)
    fam2 = dict(name="plain pydantic + PartialFactory", M=PM, N={1: PN1, 2: PN2}, P=PlainPartials.get_partial(PM),
                NP={1: PlainPartials.get_partial(PN1), 2: PlainPartials.get_partial(PN2)},
                atom={"a": {"0": "", "7": "x"}, "b": {"F": 0.0, "T": 1.5}, "p": {"0": "", "7": "x"}, "q": {"F": 0.0}, "r": {"0": "", "7": "x"}},
                elem={"0": "", "7": "x"}, yaml=False)
    return [fam1, fam2]



