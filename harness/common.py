"""Shared plumbing: work directories, TLC runner, verdict collection, evidence files."""
from __future__ import annotations

import json
import os
import re
import shutil
import subprocess
import sys
import time
from pathlib import Path
from typing import Any, Dict, List, Optional

VERIF = Path(__file__).resolve().parent.parent
SPEC = VERIF / "spec"
WORK = VERIF / ".work"
EVIDENCE = VERIF / "evidence"
if os.environ.get("VERIF_TRIAL_EVIDENCE"):
    # seeded-change trials (tools/try_seed.sh) must not overwrite the evidence of the unchanged tree
    EVIDENCE = Path(os.environ["VERIF_TRIAL_EVIDENCE"])
    EVIDENCE.mkdir(parents=True, exist_ok=True)
REPLAY = VERIF / ".work" / "replay"
KNOWN_FINDINGS = VERIF / "known_findings.json"
PY = "/venv/bin/python"
TLA_CP = "/opt/veriftools/tla/tla2tools.jar:/opt/veriftools/tla/CommunityModules-deps.jar"
NCPU = min(16, os.cpu_count() or 4)


class MachineryError(Exception):
    """Something in the verification machinery itself failed (exit code 2)."""


def seed() -> int:
    try:
        return int(os.environ.get("VERIF_SEED", "20261003"))
    except ValueError:
        return 20261003


def workdir(name: str) -> Path:
    d = WORK / f"{name}-{os.getpid()}"
    if d.exists():
        shutil.rmtree(d)
    d.mkdir(parents=True)
    return d


def cleanup(d: Path):
    shutil.rmtree(d, ignore_errors=True)


# --------------------------------------------------------------------------------------
# TLC


class TLCResult:
    def __init__(self, rc, out, wall):
        self.rc = rc
        self.out = out
        self.wall = wall
        self.generated = 0
        self.distinct = 0
        self.depth = 0
        self.violated: Optional[str] = None
        self.error: Optional[str] = None
        self.coverage: Dict[str, int] = {}
        self.behaviour: List[str] = []
        self._parse()

    def _parse(self):
        m = None
        for m in re.finditer(
            r"(\d[\d,]*) states generated, (\d[\d,]*) distinct states found", self.out
        ):
            pass
        if m:
            self.generated = int(m.group(1).replace(",", ""))
            self.distinct = int(m.group(2).replace(",", ""))
        m = re.search(r"depth of the complete state graph search is (\d+)", self.out)
        if m:
            self.depth = int(m.group(1))
        m = re.search(r"Error: Invariant (\S+) is violated", self.out)
        if m:
            self.violated = m.group(1)
        m = re.search(r"Error: Action property (\S+) is violated", self.out)
        if m and not self.violated:
            self.violated = m.group(1)
        m = re.search(r"Error: Temporal properties were violated", self.out)
        if m and not self.violated:
            self.violated = "temporal"
        if "Error:" in self.out and not self.violated:
            i = self.out.index("Error:")
            self.error = self.out[i : i + 1500]
        # per-action coverage (-coverage 1):  <Name line .. of module M>: distinct:total
        for m in re.finditer(r"^<(\w+) line \d+, col \d+ to line \d+, col \d+ of module (\w+)>: (\d+):(\d+)", self.out, re.M):
            self.coverage[m.group(1)] = self.coverage.get(m.group(1), 0) + int(m.group(4))
        self.behaviour = re.findall(r"^State \d+: <(.*?)>$", self.out, re.M)

    @property
    def ok(self):
        return self.rc == 0 and not self.violated and not self.error


def run_tlc(
    module: str,
    cfg_text: str,
    wd: Path,
    *,
    workers: int = NCPU,
    simulate: Optional[str] = None,
    depth: Optional[int] = None,
    env: Optional[Dict[str, str]] = None,
    timeout: int = 3600,
    coverage: bool = False,
    extra: Optional[List[str]] = None,
    tag: str = "",
    java_opts: Optional[List[str]] = None,
) -> TLCResult:
    """Run TLC on spec/<module>.tla with the given configuration text.

    All spec modules are copied into the work directory so that TLC's generated files
    never land in the source tree.
    """
    sd = wd / f"tlc_{module}{tag}"
    sd.mkdir(parents=True, exist_ok=True)
    for f in SPEC.glob("*.tla"):
        shutil.copy(f, sd / f.name)
    cfg = sd / f"{module}{tag}.cfg"
    cfg.write_text(cfg_text)
    cmd = ["java", "-XX:+UseParallelGC", "-Xss16m"] + (java_opts or []) + [
        "-cp", TLA_CP, "tlc2.TLC",
        "-workers", str(workers), "-metadir", str(sd / "meta"), "-noGenerateSpecTE",
        "-config", str(cfg),
    ]
    if simulate:
        cmd += ["-simulate", simulate]
    if depth:
        cmd += ["-depth", str(depth)]
    if coverage:
        cmd += ["-coverage", "1"]
    if extra:
        cmd += extra
    cmd += [f"{module}.tla"]
    e = dict(os.environ)
    e.pop("JAVA_TOOL_OPTIONS", None)
    if env:
        e.update(env)
    t0 = time.time()
    try:
        p = subprocess.run(cmd, cwd=sd, env=e, capture_output=True, text=True, timeout=timeout)
        out, rc = p.stdout + p.stderr, p.returncode
    except subprocess.TimeoutExpired as ex:
        out = (ex.stdout or b"").decode(errors="replace") if isinstance(ex.stdout, bytes) else (ex.stdout or "")
        out += "\nError: TLC timed out"
        rc = 124
    (sd / "tlc.out").write_text(out)
    return TLCResult(rc, out, time.time() - t0)


def cfg_text(spec: str = "Spec", constants: Dict[str, Any] = None, invariants=(), properties=(),
             constraint: Optional[str] = None, postcondition: Optional[str] = None,
             init_next: Optional[tuple] = None, view: Optional[str] = None) -> str:
    lines = []
    if init_next:
        lines += [f"INIT {init_next[0]}", f"NEXT {init_next[1]}"]
    else:
        lines.append(f"SPECIFICATION {spec}")
    if constants:
        lines.append("CONSTANTS")
        for k, v in constants.items():
            lines.append(f"  {k} = {tla_value(v)}")
    if constraint:
        lines.append(f"CONSTRAINT {constraint}")
    for i in invariants:
        lines.append(f"INVARIANT {i}")
    for p in properties:
        lines.append(f"PROPERTY {p}")
    if postcondition:
        lines.append(f"POSTCONDITION {postcondition}")
    if view:
        lines.append(f"VIEW {view}")
    lines.append("CHECK_DEADLOCK FALSE")
    return "\n".join(lines) + "\n"


def tla_value(v) -> str:
    if isinstance(v, bool):
        return "TRUE" if v else "FALSE"
    if isinstance(v, int):
        return str(v)
    if isinstance(v, str):
        return json.dumps(v)
    if isinstance(v, (set, frozenset)):
        return "{" + ", ".join(sorted(tla_value(x) for x in v)) + "}"
    if isinstance(v, (list, tuple)):
        return "<<" + ", ".join(tla_value(x) for x in v) + ">>"
    raise TypeError(v)


# --------------------------------------------------------------------------------------
# Batched trace validation


def validate_traces(module: str, traces: List[Any], wd: Path, *, tag: str = "",
                    constants: Dict[str, Any] = None, chunk: int = 400,
                    timeout: int = 3600) -> List[List[Any]]:
    """Validate traces against spec/<module>.tla.

    The trace specification reads the JSON file named by TRACE_FILE (a list of traces),
    explores one behaviour per trace and writes, from its POSTCONDITION, the list of
    verdicts (one per trace: list of [step, clause] pairs, empty = accepted) to OUT_FILE.
    Returns the verdict list (parallel to `traces`).  Raises MachineryError on TLC errors.
    """
    import concurrent.futures as cf

    chunks = [traces[i : i + chunk] for i in range(0, len(traces), chunk)]
    results: List[Optional[List[Any]]] = [None] * len(chunks)
    stats = {"states": 0, "transitions": 0}

    def job(ci):
        tf = wd / f"traces_{module}{tag}_{ci}.json"
        of = wd / f"verdicts_{module}{tag}_{ci}.json"
        tf.write_text(json.dumps(chunks[ci]))
        if of.exists():
            of.unlink()
        cfg = cfg_text("TraceSpec", constants=constants, postcondition="WriteVerdicts")
        r = run_tlc(module, cfg, wd, workers=1, tag=f"{tag}_{ci}", timeout=timeout,
                    env={"TRACE_FILE": str(tf), "OUT_FILE": str(of)})
        if not r.ok or not of.exists():
            k = r.out.find("Error:")
            raise MachineryError(f"TLC failed validating {tf}:\n{r.out[max(0, k):k + 1800] if k >= 0 else r.out[-1800:]}")
        v = json.loads(of.read_text())
        if isinstance(v, dict):  # TLC serialises functions over 1..n as objects sometimes
            v = [v[str(k)] for k in range(1, len(v) + 1)]
        if len(v) != len(chunks[ci]):
            raise MachineryError(f"verdict count mismatch for {tf}: {len(v)} vs {len(chunks[ci])}")
        return ci, v, r

    with cf.ThreadPoolExecutor(max_workers=max(1, NCPU // 2)) as ex:
        for ci, v, r in ex.map(job, range(len(chunks))):
            results[ci] = v
            stats["states"] += r.distinct
            stats["transitions"] += r.generated
    out: List[List[Any]] = []
    for v in results:
        out.extend(v)  # type: ignore
    validate_traces.last_stats = stats  # type: ignore
    return out


# --------------------------------------------------------------------------------------
# Known findings and reporting


def load_known() -> Dict[str, Any]:
    if KNOWN_FINDINGS.exists():
        return json.loads(KNOWN_FINDINGS.read_text())
    return {"findings": [], "fixed": []}


class Report:
    """Collects what a check covered and what it found; writes evidence; decides exit code."""

    def __init__(self, pid: str, tier: str, level: str = "model_checking"):
        self.pid = pid
        self.tier = tier
        self.level = level
        self.t0 = time.time()
        self.states = 0
        self.transitions = 0
        self.traces = 0
        self.evaluations = 0
        self.samples: List[Any] = []
        self.parts: Dict[str, Any] = {}
        self.assumptions: List[str] = []
        self.violations: List[Dict[str, Any]] = []
        self.known_hits: List[str] = []
        self.nontrivial: set = set()
        self.rule = ""
        self.exhaustive = False
        self.machinery_errors: List[str] = []
        self.known = [f for f in load_known().get("findings", []) if f.get("property") == pid]

    # --- accumulation
    def add_tlc(self, name: str, r: TLCResult, **extra):
        self.states += r.distinct
        self.transitions += r.generated
        self.parts[name] = dict(distinct_states=r.distinct, states_generated=r.generated,
                                depth=r.depth, wall_s=round(r.wall, 1), **extra)

    def sample(self, s, limit=6):
        if len(self.samples) < limit:
            self.samples.append(s)

    def violation(self, what: str, replay: Dict[str, Any], signature: Optional[str] = None):
        """Record a violation unless it matches a listed known finding."""
        for k in self.known:
            if signature is not None and k.get("signature") == signature:
                msg = f"KNOWN-FINDING: property={self.pid} {k.get('what', signature)}"
                if msg not in self.known_hits:
                    self.known_hits.append(msg)
                return
        REPLAY.mkdir(parents=True, exist_ok=True)
        path = REPLAY / f"{self.pid}_{len(self.violations)}_{os.getpid()}.json"
        path.write_text(json.dumps({"property": self.pid, "what": what, **replay}, indent=1, default=str))
        self.violations.append({"what": what, "replay": str(path)})

    def machinery(self, msg: str):
        self.machinery_errors.append(msg)

    # --- output
    def finish(self) -> int:
        cov: Dict[str, Any] = {
            "states": max(self.states, 0),
            "transitions": max(self.transitions, 0),
            "traces_validated_against_impl": self.traces,
            "samples": self.samples or ["(no sample recorded)"],
            "evaluations": max(self.evaluations, 1),
            "distinct_nontrivial": len(self.nontrivial),
            "rule": self.rule,
            "exhaustive": self.exhaustive,
            "parts": self.parts,
        }
        ev = {
            "property_id": self.pid,
            "tier": self.tier,
            "seed": seed(),
            "level": self.level,
            "coverage": cov,
            "assumptions": self.assumptions,
            "wall_s": round(time.time() - self.t0, 2),
            "violations": len(self.violations),
        }
        EVIDENCE.mkdir(exist_ok=True)
        (EVIDENCE / f"{self.pid}.json").write_text(json.dumps(ev, indent=1, default=str))
        for k in self.known_hits:
            print(k)
        for m in self.machinery_errors:
            print(f"MACHINERY-ERROR property={self.pid} {m}", file=sys.stderr)
        if self.violations:
            for v in self.violations[:20]:
                print(f"VIOLATION property={self.pid} replay={v['replay']}")
                print(f"  {v['what']}")
            return 1
        if self.machinery_errors:
            return 2
        print(f"OK property={self.pid} tier={self.tier} states={self.states} "
              f"traces={self.traces} wall={ev['wall_s']}s")
        return 0


# --------------------------------------------------------------------------------------
# Apalache (SMT): unbounded / value-independent laws of small typed modules


def apalache_laws(rep, wd: Path, module: str, part: str, domain: str, laws: str = "Laws", non_law: str = "NotALaw",
                  timeout: int = 900) -> None:
    """`apalache-mc check --length=0 --inv=<laws>` must report NoError, the same set-up must reject <non_law>."""
    exe = shutil.which("apalache-mc") or next((x for x in ("/opt/veriftools/apalache/bin/apalache-mc", "/usr/local/bin/apalache-mc")
                                               if os.path.exists(x)), None)
    if exe is None:
        # a supplement to the TLC results, not the deciding method: absent tool = part not covered, stated in the evidence
        rep.parts[part] = {"module": module, "skipped": "apalache-mc not found"}
        return
    d = wd / ("apalache_" + module)
    d.mkdir(exist_ok=True)
    shutil.copy(SPEC / f"{module}.tla", d / f"{module}.tla")
    res: Dict[str, Any] = {}
    for inv, want in ((laws, "NoError"), (non_law, "Error")):
        t0 = time.time()
        try:
            p = subprocess.run([exe, "check", "--length=0", f"--inv={inv}", f"--out-dir={d / ('out_' + inv)}",
                                f"{module}.tla"], cwd=d, capture_output=True, text=True, timeout=timeout)
            out = p.stdout + p.stderr
        except (subprocess.TimeoutExpired, OSError) as ex:
            rep.parts[part] = {"module": module, "skipped": f"apalache-mc could not be run ({type(ex).__name__})"}
            return
        outcome = "NoError" if "The outcome is: NoError" in out else ("Error" if "The outcome is: Error" in out else "?")
        res[inv] = {"outcome": outcome, "wall_s": round(time.time() - t0, 1)}
        if inv == laws and outcome == "Error":
            rep.violation(f"Apalache: a law of {module} does not hold over {domain}", {"apalache_out": out[-4000:]})
        elif outcome == "?":
            rep.parts[part] = {"module": module, "skipped": f"apalache-mc gave no verdict for {inv}"}
            return
        elif outcome != want:
            rep.machinery(f"apalache-mc on {module} ({inv}): expected {want}, got {outcome}: {out[-600:]}")
    rep.parts[part] = {"module": module, "domain": domain, "length": 0, **res}
