"""C13 — every child-schema instance is a valid parent-schema instance."""
import json
import random
from typing import Any, Dict, List, Literal, Optional, Set, Union

from . import common, compat
from .common import Report, cfg_text, run_tlc

from metador_core.schema import MetadataSchema
from metador_core.schema import types as T


class NestA(MetadataSchema):
    v: T.Int


class NestB(NestA):
    w: Optional[T.Int]


PRIM = {"bool": T.Bool, "int": T.Int, "float": T.Float, "str": T.Str, "nestr": T.NonEmptyStr,
        "litA": Literal["a"], "litAB": Literal["a", "b"], "nestA": NestA, "nestB": NestB}
ATOM = {"none": None, "true": True, "0": 0, "1": 1, "1.5": 1.5, "empty": "", "blank": "  ", "a": "a", "b": "b", "x": "x",
        "objI": {"v": 1}, "objS": {"v": "x"}, "objIW": {"v": 1, "w": 2}, "objIWbad": {"v": 1, "w": "x"}}


def hint(t):
    c, a, b = t["c"], t["a"], t["b"]
    if c == "prim":
        return PRIM[a]
    if c == "opt":
        return Optional[PRIM[a]]
    if c == "list":
        return List[PRIM[a]]
    if c == "set":
        return Set[PRIM[a]]
    return Union[PRIM[a], PRIM[b]]


def value(v):
    if v["k"] == "atom":
        return ATOM[v["v"][0]]
    items = [ATOM[x] for x in v["v"]]
    return items if v["k"] == "list" else set(items)


_n = [0]


def model_with(th, base=MetadataSchema, name="M"):
    _n[0] += 1
    return type(MetadataSchema)(f"{name}{_n[0]}", (base,), {"__annotations__": {"f": th}})


def admits(cls, val) -> bool:
    try:
        cls(f=val)
        return True
    except Exception:
        return False


def run(tier: str) -> int:
    rep = Report("C13", tier)
    quick = tier == "quick"
    seed = common.seed()
    rng = random.Random(seed)
    rep.assumptions += [compat.ASSUMPTION,
                        "the semantic subtype relation is taken over a finite boundary corpus (atoms, lists, sets, nested objects); "
                        "date/time types are excluded as in the property",
                        "Accepts of the specification is calibrated against real pydantic verdicts on every (type, value) of the run"]
    rep.rule = ("TLC checks for all 11236 ordered pairs of 106 field types (strict primitives, constrained string, Literals, nested "
                "schemas in a chain; Optional, Union, List, Set) that the structural subtype rule is sound w.r.t. the semantic relation "
                "over the corpus, and exports types, corpus, the Accepts table and Sub per pair; the harness binds Accepts to pydantic "
                "and runs check_types on a Parent/Child class pair for every type pair: an override accepted without declaration must "
                "be a semantic subtype, a declared override must be allowed; children of installed and harness schema families are "
                "parsed by every ancestor; distinct = distinct type pairs")
    wd = common.workdir("C13")
    try:
        from metador_core.schema.core import check_types
        from metador_core.schema.decorators import override
        out = wd / "cases.json"
        cfg = cfg_text("Spec", constants={"Stride": 1}, invariants=["StructSubSound", "SubReflexive", "SubTransitive"],
                       postcondition="Export")
        r = run_tlc("SchemaSubtype", cfg, wd, env={"OUT_FILE": str(out)}, timeout=3000)
        rep.add_tlc("subtype_model", r, types=106, corpus_values=None, exhaustive=True)
        if r.violated:
            rep.violation(f"TLC: {r.violated} violated in the SchemaSubtype model", {"tlc_out": r.out[-4000:]})
        elif not r.ok or not out.exists():
            rep.machinery(f"TLC failed on SchemaSubtype: {r.error or r.out[-600:]}")
            return rep.finish()
        tab = json.loads(out.read_text())
        types, corpus, acc = tab["types"], tab["corpus"], tab["accepts"]
        rep.parts["subtype_model"]["corpus_values"] = len(corpus)
        # (a) the model's Accepts is what pydantic does
        mism = []
        classes = [model_with(hint(t)) for t in types]
        real_acc: List[set] = []
        for i, t in enumerate(types):
            got = set()
            for j, v in enumerate(corpus):
                try:
                    val = value(v)
                except TypeError:   # unhashable element for a set value
                    continue
                if admits(classes[i], val):
                    got.add(j + 1)
            real_acc.append(got)
            exp = {j for j in acc[i] if not (corpus[j - 1]["k"] == "set" and any(isinstance(ATOM[x], dict) for x in corpus[j - 1]["v"]))}
            if got != exp:
                mism.append((t, sorted(corpus[j - 1]["v"] for j in got ^ exp)[:4]))
        rep.parts["accepts_calibration"] = {"type_value_pairs": len(types) * len(corpus), "mismatching_types": len(mism)}
        rep.evaluations += len(types) * len(corpus)
        if mism:
            rep.machinery(f"the specification's Accepts disagrees with pydantic for {len(mism)} types, e.g. {mism[:3]} "
                          "(the model must be corrected; no verdict is taken from it)")
            return rep.finish()
        # (b) check_types on Parent/Child pairs
        pairs = tab["pairs"]
        if quick:
            rng.shuffle(pairs)
            pairs = pairs[:2500]
        nacc = nref = ndecl = 0
        for pr in pairs:
            ci, pi = pr["c"] - 1, pr["p"] - 1
            parent = model_with(hint(types[pi]), name="Parent")
            shape = (ci + pi) % 3
            if shape == 0:
                base = parent
            else:   # the overridden field is inherited through an intermediate class that does not touch it
                _n[0] += 1
                base = type(MetadataSchema)(f"Middle{_n[0]}", (parent,), {"__annotations__": {"other": Optional[T.Int]}})
            child = model_with(hint(types[ci]), base=base, name="Child")
            checked = child
            if shape == 2:
                # the override is made by an intermediate class; only the leaf below it (which does not touch the
                # field) is handed to the check, as when only the leaf is a registered plugin
                _n[0] += 1
                checked = type(MetadataSchema)(f"Leaf{_n[0]}", (child,), {"__annotations__": {"more": Optional[T.Int]}})
            try:
                check_types(checked)
                accepted = True
            except TypeError:
                accepted = False
            rep.nontrivial.add((ci, pi))
            if accepted:
                nacc += 1
                if not pr["sub"]:
                    w = sorted(real_acc[ci] - real_acc[pi])
                    wv = corpus[w[0] - 1] if w else None
                    demo = ""
                    if wv is not None:
                        try:
                            obj = checked(f=value(wv))
                            try:
                                parent.parse_raw(bytes(obj))
                                demo = "(parent parsed the serialised child after all)"
                            except Exception as ex:
                                demo = f"child instance f={value(wv)!r} is rejected by the parent: {type(ex).__name__}"
                        except Exception:
                            demo = ""
                    if "rejected by the parent" in demo or wv is None:
                        rep.violation(f"override {types[pi]} -> {types[ci]} was accepted without declaration although the child type "
                                      f"admits values the parent rejects; {demo}", {"child": types[ci], "parent": types[pi], "witness": wv})
            else:
                nref += 1
                # an explicitly declared override must be allowed
                if ndecl < (200 if quick else 3000):
                    ndecl += 1
                    child2 = override("f")(model_with(hint(types[ci]), base=base, name="ChildDecl"))
                    try:
                        check_types(child2)
                    except Exception as ex:
                        rep.violation(f"a declared override {types[pi]} -> {types[ci]} was refused: {type(ex).__name__}: {str(ex)[:100]}",
                                      {"child": types[ci], "parent": types[pi]})
        rep.parts["override_pairs"] = {"pairs": len(pairs), "accepted_without_declaration": nacc, "refused": nref,
                                       "declared_overrides_checked": ndecl,
                                       "semantic_subtypes_among_pairs": sum(1 for p_ in pairs if p_["sub"])}
        rep.evaluations += len(pairs)
        rep.traces = len(pairs)
        ex_pair = next(p_ for p_ in pairs if p_["sub"] and p_["c"] != p_["p"])
        rep.sample({"child_type": types[ex_pair["c"] - 1], "parent_type": types[ex_pair["p"] - 1], "semantic_subtype": True})
        if nacc < 50 or nref < 50:
            rep.machinery(f"vacuous: accepted={nacc} refused={nref}")
        # a field made mandatory by a decorator in between must not be re-widened without declaration
        from metador_core.schema.decorators import make_mandatory
        nmm = 0
        for pk, pt in PRIM.items():
            _n[0] += 1
            g = type(MetadataSchema)(f"G{_n[0]}", (MetadataSchema,), {"__annotations__": {"f": Optional[pt]}})
            mid = make_mandatory("f")(type(MetadataSchema)(f"Mid{_n[0]}", (g,), {"__annotations__": {}}))
            for th, is_sub in ((Optional[pt], False), (pt, True)):
                nmm += 1
                ch = type(MetadataSchema)(f"Ch{_n[0]}_{nmm}", (mid,), {"__annotations__": {"f": th}})
                try:
                    check_types(ch)
                    acc_ = True
                except TypeError:
                    acc_ = False
                if acc_ and not is_sub:
                    try:
                        obj = ch()
                        mid.parse_raw(bytes(obj))
                        bad = False
                    except Exception:
                        bad = True
                    if bad:
                        rep.violation(f"a child re-widening field f to Optional[{pk}] below a @make_mandatory parent was accepted "
                                      "without declaration; its instance without f is rejected by the parent", {"prim": pk})
        rep.parts["make_mandatory_chains"] = {"cases": nmm}
        # the check is wired into plugin loading: plugins with an undeclared incompatible override (own, or made by an
        # unregistered class between them and their parent plugin) are refused when the plugin group loads them
        from . import synth, c13models as LM
        from metador_core.plugins import schemas as _schemas
        synth.register_package("vl-pkg", "1.0.0", LM.CLASSES)
        for attempt in (1, 2, 3):       # a refused plugin stays refused however often it is asked for
            for pname, should_load in LM.EXPECT.items():
                try:
                    _schemas[pname]
                    loaded = True
                except TypeError:
                    loaded = False
                except Exception as ex:
                    loaded = False
                    if should_load:
                        rep.violation(f"loading the valid schema plugin {pname} raised {type(ex).__name__}: {str(ex)[:120]}", {"plugin": pname})
                        continue
                if loaded != should_load:
                    rep.violation(f"schema plugin {pname} (attempt {attempt}): "
                                  f"{'loaded although its class chain contains an undeclared incompatible override' if loaded else 'refused although valid'}",
                                  {"plugin": pname, "attempt": attempt})
        rep.parts["plugin_loading"] = {"plugins": len(LM.EXPECT), "must_be_refused": sum(1 for v in LM.EXPECT.values() if not v)}
        # ... and stays wired in under dependencies: families of plugins with `requires` edges and parent plugins, some
        # invalid, requested in every order (spec/PluginLoad.tla: granted iff nothing in the dependency closure is invalid)
        from . import pluginload
        pluginload.part(rep, wd, quick, rng)
        # hints wrapped in Annotated[...] (as metador's own schemas write them): whatever check_types accepts without
        # declaration must be semantically safe for the witnesses
        from typing_extensions import Annotated
        from pydantic import Field
        F1 = Field(description="d")
        wrapped = [(Annotated[T.Int, F1], Annotated[Optional[T.Int], F1]), (Annotated[Optional[T.Int], F1], Annotated[T.Int, F1]),
                   (Annotated[T.Int, F1], Optional[Annotated[T.Int, F1]]), (Optional[Annotated[T.Int, F1]], Annotated[T.Int, F1]),
                   (Annotated[List[T.Int], F1], Annotated[List[Optional[T.Int]], F1]),
                   (Annotated[T.Str, F1], Annotated[Union[T.Str, T.Int], F1]), (Annotated[Literal["a", "b"], F1], Annotated[Literal["a"], F1]),
                   (Annotated[Literal["a"], F1], Annotated[Literal["a", "b"], F1]), (Annotated[NestA, F1], Annotated[Optional[NestB], F1])]
        witnesses = [None, 1, "a", "b", "x", [1], [None], {"v": 1}, {"v": 1, "w": 2}]
        nwr = 0
        for ph, ch in wrapped:
            nwr += 1
            par = model_with(ph, name="AnnParent")
            chd = model_with(ch, base=par, name="AnnChild")
            try:
                check_types(chd)
                acc_ = True
            except TypeError:
                acc_ = False
            if not acc_:
                continue
            for wv in witnesses:
                try:
                    obj = chd(f=wv) if wv is not None else chd()
                except Exception:
                    continue
                try:
                    par.parse_raw(bytes(obj))
                except Exception as ex:
                    rep.violation(f"override {ph} -> {ch} was accepted without declaration, but the child instance f={wv!r} "
                                  f"is rejected by the parent: {type(ex).__name__}", {"parent": str(ph), "child": str(ch), "witness": repr(wv)})
                    break
        rep.parts["annotated_wrappers"] = {"pairs": nwr}
        # nested schemas are checked wherever they sit in a field type: a holder whose field refers (behind any
        # wrapper) to a schema class with an undeclared incompatible override must be refused
        from typing import Tuple as _Tuple
        _n[0] += 1
        Item = type(MetadataSchema)(f"Item{_n[0]}", (MetadataSchema,), {"__annotations__": {"x": T.Int}})
        ItemBad = type(MetadataSchema)(f"ItemBad{_n[0]}", (Item,), {"__annotations__": {"x": T.Str}})
        ItemOk = type(MetadataSchema)(f"ItemOk{_n[0]}", (Item,), {"__annotations__": {"y": Optional[T.Int]}})
        shapes = {"plain": lambda c: c, "optional": lambda c: Optional[c], "list": lambda c: List[c], "dict": lambda c: Dict[str, c],
                  "tuple": lambda c: _Tuple[T.Int, c], "list_of_dict": lambda c: List[Dict[str, c]],
                  "list_of_annotated": lambda c: List[Annotated[c, Field(description="d")]],
                  "optional_union_dict": lambda c: Optional[Union[T.Int, Dict[str, c]]], "annotated": lambda c: Annotated[c, F1]}
        nnest = 0
        for sname, mk in shapes.items():
            for inner, must_refuse in ((ItemBad, True), (ItemOk, False)):
                nnest += 1
                _n[0] += 1
                try:
                    holder = type(MetadataSchema)(f"Holder{_n[0]}", (MetadataSchema,), {"__annotations__": {"g": mk(inner)}})
                    check_types(holder)
                    refused = False
                except TypeError:
                    refused = True
                if refused != must_refuse:
                    rep.violation(f"a schema holding {'an invalid' if must_refuse else 'a valid'} nested schema in a field of shape "
                                  f"'{sname}' was {'refused' if refused else 'accepted'}", {"shape": sname})
        rep.parts["nested_schema_positions"] = {"cases": nnest}
        # extra policy must not be loosened by a child
        from pydantic import Extra

        class Strict(MetadataSchema):
            class Config:
                extra = Extra.forbid
            f: Optional[T.Int]
        for body, what in (({"Config": type("Config", (), {"extra": Extra.allow})}, "allows extra fields"),
                           ({"__annotations__": {"g": Optional[T.Int]}}, "adds a field"),
                           ({"retries": 3}, "adds a field without annotation (inferred from its default)")):
            try:
                type(MetadataSchema)("Loose", (Strict,), dict(body))
                rep.violation(f"a child of a schema that forbids extra fields {what} and was not refused", {})
            except TypeError:
                pass
        # (c) instances of child schemas are valid instances of every ancestor (installed + harness family)
        from metador_core.plugins import schemas
        from . import contlib as CL
        from .c12 import installed_instances
        env = CL.Env()
        env.upgrade()
        env.upgrade()
        nanc = 0
        pool: Dict[str, List[Any]] = dict(installed_instances())
        fam_rng = random.Random(seed)
        for key, cls in CL.CLASSES.items():
            pool.setdefault(cls.Plugin.name, [])
            pool[cls.Plugin.name] += [CL.instances(key, fam_rng) for _ in range(6)]
        from . import geninst
        for ref in list(schemas.keys()):
            if ref.name in LM.EXPECT and (not LM.EXPECT[ref.name] or ref.name == "vl.decl"):
                continue     # the deliberately invalid plugins of the loading part, and the one that opts out by @override
            if ref.name.startswith("vq."):
                continue     # the families of the dependency-loading part (some deliberately invalid)
            cls = schemas._get_unsafe(ref.name, ref.version)
            chain = schemas.parent_path(ref.name, ref.version)[:-1]
            gen = []
            if chain and ref.name != "core.packerinfo":
                gen = [json.loads(o.json()) for o in geninst.instances(cls, fam_rng, 20 if quick else 200)]
            for objd in pool.get(ref.name, []) + gen:
                try:
                    obj = cls.parse_obj(objd)
                except Exception:
                    continue  # instance belongs to another version of the schema
                for anc in chain:
                    acls = schemas._get_unsafe(anc.name, anc.version)
                    nanc += 1
                    try:
                        acls.parse_raw(bytes(obj))
                    except Exception as ex:
                        rep.violation(f"an instance of {ref.name} {ref.version} is not a valid instance of its ancestor {anc.name}: "
                                      f"{type(ex).__name__}: {str(ex)[:150]}", {"schema": ref.name, "ancestor": anc.name, "obj": objd})
        rep.parts["ancestor_parsing"] = {"child_instances_parsed_by_ancestors": nanc}
        rep.evaluations += nanc
        if nanc < 10:
            rep.machinery(f"vacuous ancestor parsing: {nanc}")
    except common.MachineryError as e:
        rep.machinery(str(e)[:2500])
    finally:
        common.cleanup(wd)
    return rep.finish()
