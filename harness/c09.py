"""C09 — containers behave identically on plain HDF5 and on IH5 records."""
from .contcommon import standard_run


def run(tier: str) -> int:
    return standard_run(
        "C09", tier,
        rule=("the same generated container operation sequence executed in lock step on h5py.File, IH5Record and IH5MFRecord, "
              "with patch boundaries and reopen points placed independently at random for the IH5 drivers; TLC validates each "
              "driver against the same deterministic reference (H5Tree + Container) and the three-way clause drivers_agree "
              "(outcome, user tree, attributes, metadata objects, query results)"),
        assumptions=["IH5 subset only: printable-ASCII keys, no links; non-UTF-8 byte-string attribute values excluded "
                     "(recorded finding for C01)"])
