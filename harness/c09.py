"""C09 — containers behave identically on plain HDF5 and on IH5 records."""
from .contcommon import standard_run


def through_container(rep, wd, quick, seed, rng):
    """The data-level histories of C01 (random, few-paths) executed through MetadorContainer on all three
    drivers and validated against the same reference machine H5Tree: whatever driver carries the container,
    every operation succeeds or fails and transforms the user-visible tree as on the single plain tree."""
    from . import ih5common as X
    from .c01 import jobs_random
    drivers = ("mc-h5", "mc-ih5", "mc-ih5mf")
    jobs = jobs_random(12 if quick else 150, 18 if quick else 28, seed + 5, drivers=drivers, start=500000,
                       values=["v1", "v2", "v3", "v4"], weights={"copyx": 0, "require_dataset": 0})
    X.run_and_validate(rep, wd, jobs, "data_histories_through_container")
    jobs = jobs_random(14 if quick else 150, 24 if quick else 32, seed + 6, drivers=drivers, start=600000, depth=1, pb=0.15,
                       pr=0.04, values=["v1", "v2", "v3"],
                       weights={"set_dataset": 5, "delete": 4, "move": 4, "copy": 2, "create_group": 1.5, "set_attr": 1.5,
                                "del_attr": 0.5, "require_group": 0})
    X.run_and_validate(rep, wd, jobs, "few_paths_many_rewrites_through_container")


def run(tier: str) -> int:
    return standard_run(
        "C09", tier,
        rule=("the same generated container operation sequence executed in lock step on h5py.File, IH5Record and IH5MFRecord, "
              "with patch boundaries and reopen points placed independently at random for the IH5 drivers; TLC validates each "
              "driver against the same deterministic reference (H5Tree + Container) and the three-way clause drivers_agree "
              "(outcome, user tree, attributes, metadata objects, query results); in addition data-level histories (random and "
              "few-paths-rewritten-often) run through MetadorContainer on each driver and are validated by Trace_IH5 against "
              "the reference machine H5Tree"),
        assumptions=["IH5 subset only: printable-ASCII keys, no links; non-UTF-8 byte-string attribute values excluded "
                     "(recorded finding for C01)"],
        extra=through_container)
