"""Driving h5py.File / IH5Record / IH5MFRecord histories and projecting their state.

Everything a verdict is based on is observed through the public API (keys, [], attrs,
dataset[()], visititems, in) and through the bytes on disk (documented file naming, user
block and marker layout of PATCH_THEORY.md, read with plain h5py after the record is
closed).  Values and keys in the logged traces are abstract tokens; the mapping to
concrete adversarial values/keys is a bijective renaming kept per history.
"""
from __future__ import annotations

import hashlib
import os
import random
from pathlib import Path
from typing import Any, Dict, List, Optional

from . import compat  # noqa: F401  (must precede metador imports)

import h5py
import numpy as np

# --------------------------------------------------------------------------------------
# value tokens


def value_pool() -> Dict[str, Any]:
    return {
        "v1": 1,
        "v2": "text",
        "v3": np.array([1, 2, 3], dtype="int64"),
        "v4": 2.5,
        "v5": np.void(b"\x00ab\x00\x00"),
        "v6": True,
        "v7": np.array([[1.5, 2.5], [3.5, 4.5]]),
        "v8": b"bytes\xff",
        "v9": np.void(b"\x7f\x7f"),  # marker-like but not the marker
        # a wider range of HDF5 types (only used by drivers that ask for them)
        "v10": np.float32(1.5),
        "v11": np.array([b"ab", b"cde"], dtype="S5"),
        "v12": np.array([], dtype="int64"),
        "v13": np.complex128(1 + 2j),
        "v14": h5py.Empty("f"),
        "v15": np.array([(1, 2.0)], dtype=[("a", "i4"), ("b", "f8")]),
        "v16": np.array(["a", "bcd"], dtype=h5py.string_dtype()),
        "v17": np.uint64(2 ** 64 - 1),
        "v18": "",
        "v19": np.zeros((0, 3)),
        "v20": np.int8(-3),
        # a payload of more than 1 MiB (containers beyond typical buffer / mmap thresholds)
        "vbig": np.arange(140_000, dtype="float64"),
        # three-element arrays for element writes (H5Tree!ArrTok)
        **{f"w{a}{b}{c}": np.array([a, b, c], dtype="int64") for a in (0, 1) for b in (0, 1) for c in (0, 1)},
    }


DEL_BYTES = b"\x7f"
SUBST_KEY = "\x1a"


def canon(x) -> str:
    """Canonical rendering of a value read from HDF5."""
    if isinstance(x, h5py.Empty):
        return f"empty:{x.dtype}"
    if isinstance(x, np.void):
        return "void:" + x.tobytes().hex()
    if isinstance(x, bytes):
        return "bytes:" + x.hex()
    if isinstance(x, str):
        return "str:" + x
    if isinstance(x, np.ndarray) and x.dtype == object:
        return f"arr:O:{x.shape}:" + ";".join(canon(e) for e in x.ravel())
    if isinstance(x, np.ndarray) and x.nbytes > 4096:
        return f"arr:{x.dtype.str}:{x.shape}:sha1={hashlib.sha1(x.tobytes()).hexdigest()}"
    if isinstance(x, np.ndarray):
        return f"arr:{x.dtype.str}:{x.shape}:{x.tobytes().hex()}"
    if isinstance(x, np.generic):
        return f"np:{x.dtype.str}:{x.tobytes().hex()}"
    return f"py:{type(x).__name__}:{x!r}"


class Tokens:
    """Maps read-back values to tokens; calibrated on raw h5py once per process."""

    def __init__(self, tmpdir: Path):
        self.pool = value_pool()
        self.ds: Dict[str, str] = {}
        self.at: Dict[str, str] = {}
        p = tmpdir / f"calib_{os.getpid()}.h5"
        with h5py.File(p, "w") as f:
            for t, v in self.pool.items():
                f[t] = v
                if t != "vbig":          # (too large for an attribute)
                    f.attrs[t] = v
        with h5py.File(p, "r") as f:
            for t in self.pool:
                self.ds[canon(f[t][()])] = t
                if t in f.attrs:
                    self.at[canon(f.attrs[t])] = t
        p.unlink()

    @staticmethod
    def _unknown(c: str) -> str:
        if c.startswith("empty:"):
            return "?empty"
        return "?" + c[:24] + "#" + hashlib.sha1(c.encode()).hexdigest()[:16]

    def ds_tok(self, x) -> str:
        c = canon(x)
        return self.ds.get(c) or self._unknown(c)

    def at_tok(self, x) -> str:
        c = canon(x)
        return self.at.get(c) or self._unknown(c)


# --------------------------------------------------------------------------------------
# keys

KEY_POOL = [
    "a", "b", "c", "~", "!x", "a.b", "x=y", "%20", "A", "ab", "a_", "0", "-", "(k)", "[0]",
    # legal user names that merely contain reserved-looking text (reserved: segments *starting* with metador_)
    "x_metador_y", "raw_metador_meta_", "_metador_container", "ametador_", "Metador_x", "metador",
    "q" * 63, "metadata", "dot.", "#", "$v", "a+b", "a,b", "k'", '"', "\\", "|", "^", "`", "{}", ";",
]
LOOKALIKES = ["x_metador_y", "raw_metador_meta_", "_metador_container", "ametador_", "Metador_x", "metador"]
ABSTRACT_KEYS = ["a", "b", "c"]
ABSTRACT_ATTRS = ["k", "l"]


class KeyMap:
    def __init__(self, rng: random.Random, concrete: bool, prefix_family: bool = False):
        if concrete:
            ks = rng.sample(KEY_POOL, len(ABSTRACT_KEYS))
            aks = rng.sample(KEY_POOL, len(ABSTRACT_ATTRS))
            if rng.random() < 0.35:
                # one name that merely contains reserved-looking text
                ks[rng.randrange(len(ks))] = rng.choice([x for x in LOOKALIKES if x not in ks] or LOOKALIKES)
            if rng.random() < 0.4 or prefix_family:
                # sibling names one of which is a proper prefix of the other (run1 / run10)
                base = rng.choice(["run1", "a", "x-", "d.0", KEY_POOL[rng.randrange(len(KEY_POOL))][:20]])
                fam = [base, base + rng.choice(["0", "b", "_x", ".", "1"]), base + rng.choice(["00", "bb", "-y"])]
                rng.shuffle(fam)
                ks = fam[: len(ABSTRACT_KEYS)] if rng.random() < 0.5 else [fam[0], fam[1], ks[2] if ks[2] not in fam else fam[2]]
                rng.shuffle(ks)
            for j in range(len(ks)):      # legal user names only: a family built on "metador" must not produce a reserved name
                if ks[j].startswith("metador_"):
                    ks[j] = "x" + ks[j]
            for j in range(len(ks)):      # distinct names
                while ks[j] in ks[:j]:
                    ks[j] = ks[j] + "2"
        else:
            ks, aks = list(ABSTRACT_KEYS), list(ABSTRACT_ATTRS)
        self.k = dict(zip(ABSTRACT_KEYS, ks))
        self.ak = dict(zip(ABSTRACT_ATTRS, aks))
        self.rk = {v: k for k, v in self.k.items()}
        self.rak = {v: k for k, v in self.ak.items()}

    def path(self, p: List[str]) -> str:
        return "/" + "/".join(self.k.get(s, s) for s in p)

    def abs_key(self, c: str) -> str:
        return self.rk.get(c, "?" + c)

    def abs_attr(self, c: str) -> str:
        return self.rak.get(c, "?" + c)


# --------------------------------------------------------------------------------------
# projections


def is_dataset(o) -> bool:
    return hasattr(o, "ndim") and not hasattr(o, "keys")


def project(root, km: KeyMap, tk: Tokens) -> Dict[str, Any]:
    """The complete user-visible tree through the public API."""
    nodes: List[Dict[str, Any]] = []

    def attrs_of(o):
        return {km.abs_attr(k): tk.at_tok(v) for k, v in o.attrs.items()}

    def rec(g, path):
        nodes.append({"p": path, "k": "g", "v": "", "a": attrs_of(g)})
        for key in list(g.keys()):
            child = g[key]
            cp = path + [km.abs_key(key)]
            if is_dataset(child):
                nodes.append({"p": cp, "k": "d", "v": tk.ds_tok(child[()]), "a": attrs_of(child)})
            else:
                rec(child, cp)

    rec(root["/"], [])
    visit: List[List[str]] = []
    root.visititems(lambda n, o: visit.append([km.abs_key(s) for s in n.strip("/").split("/")]))
    nodes.sort(key=lambda n: n["p"])
    return {"view": nodes, "visit": sorted(visit), "memb": membership(root, km, nodes, through_datasets=not hasattr(root, "metador"))}


def membership(root, km: KeyMap, nodes: List[Dict[str, Any]], through_datasets: bool = True) -> List[str]:
    """`in` / get() / [] with absolute, multi-segment relative and single-segment paths must agree with the listed tree,
    for every listed node and for every path over the abstract keys (up to depth 3) that is not listed."""
    import itertools
    bad: List[str] = []
    present = {tuple(n["p"]) for n in nodes}
    kinds = {tuple(n["p"]): n["k"] for n in nodes}
    cand = set(present)
    for d in (1, 2):
        cand |= set(itertools.product(ABSTRACT_KEYS, repeat=d))
    cand |= {p_ + (k_,) for p_ in present if len(p_) == 2 for k_ in ABSTRACT_KEYS}
    cand.discard(())
    # len() of every group and of every attribute set agrees with the listing
    for n in nodes:
        try:
            o = root[km.path(n["p"])] if n["p"] else root["/"]
            if len(o.attrs) != len(n["a"]) or len(list(o.attrs.keys())) != len(n["a"]):
                bad.append(f"len(attrs) of {km.path(n['p'])!r} is {len(o.attrs)}, listed {len(n['a'])}")
            if n["k"] == "g":
                kids = sum(1 for m in nodes if len(m["p"]) == len(n["p"]) + 1 and m["p"][: len(n["p"])] == n["p"])
                if len(o) != kids:
                    bad.append(f"len of group {km.path(n['p'])!r} is {len(o)}, listed {kids}")
        except Exception as ex:
            bad.append(f"len of {km.path(n['p'])!r} raised {type(ex).__name__}")
    # IH5 lookups are slow: a deterministic sample of the candidates per observation (many observations per run)
    order = sorted(cand)
    random.Random(len(nodes) * 7919 + sum(len(x) for x in present)).shuffle(order)
    for p in order[:6]:
        want = p in present
        if not through_datasets and any(kinds.get(p[:j]) == "d" for j in range(1, len(p))):
            # MetadorGroup.__contains__ hands the rest of such a path to the dataset object ("x" in dataset: TypeError
            # for scalars, element comparison for arrays) on every driver alike; recorded as an observation in DESIGN,
            # no listed property speaks about it
            continue
        ap = km.path(list(p))
        forms = [("abs", root, ap)] + ([("rel", root, ap.lstrip("/"))] if len(p) >= 2 else [])
        if len(p) >= 2 and kinds.get(p[:1]) == "g":
            try:
                forms.append(("from child", root[km.path([p[0]])], "/".join(km.k.get(s_, s_) for s_ in p[1:])))
            except Exception:
                pass
        for how, base, path in forms:
            try:
                got_in = path in base
                got_get = base.get(path) is not None
            except Exception as ex:
                bad.append(f"{how} {path!r}: membership test raised {type(ex).__name__}")
                continue
            if got_in != want or got_get != want:
                bad.append(f"{how} {path!r}: in={got_in} get={got_get} but the listing says {'present' if want else 'absent'}")
    return bad[:6]


def raw_container(path: Path, km: KeyMap, tk: Tokens) -> List[Dict[str, Any]]:
    """Raw node layout of one closed container file, read with plain h5py."""
    out: List[Dict[str, Any]] = []

    def attrs(o):
        r = {}
        for k, v in o.attrs.items():
            if k == SUBST_KEY:
                continue
            if isinstance(v, np.void) and v.tobytes() == DEL_BYTES:
                r[km.abs_attr(k)] = "DEL"
            else:
                r[km.abs_attr(k)] = tk.at_tok(v)
        return r

    def one(p, o):
        if isinstance(o, h5py.Dataset):
            val = o[()]
            if isinstance(val, np.void) and val.tobytes() == DEL_BYTES:
                out.append({"p": p, "k": "x", "v": "", "a": attrs(o)})
            else:
                out.append({"p": p, "k": "d", "v": tk.ds_tok(val), "a": attrs(o)})
        else:
            kind = "s" if SUBST_KEY in o.attrs else "g"
            out.append({"p": p, "k": kind, "v": "", "a": attrs(o)})

    with h5py.File(path, "r") as f:
        one([], f["/"])
        f.visititems(lambda n, o: one([km.abs_key(s) for s in n.strip("/").split("/")], o))
    out.sort(key=lambda n: n["p"])
    return out


def disk_digests(d: Path, prefix: Optional[str] = None) -> Dict[str, str]:
    r = {}
    for f in sorted(d.iterdir()):
        if f.is_file() and (prefix is None or f.name.startswith(prefix)):
            r[f.name] = hashlib.sha256(f.read_bytes()).hexdigest()[:24]
    return r


# --------------------------------------------------------------------------------------
# executing one user operation on a root object


def apply_op(root, e: Dict[str, Any], km: KeyMap, pool: Dict[str, Any]):
    """Execute a user operation; raises whatever the implementation raises."""
    op = e["op"]
    p = km.path(e.get("p", []))
    base = root
    via = e.get("via", 0)
    if via and len(e.get("p", [])) > via and op not in ("copy", "move", "copyx"):
        try:
            cand = root[km.path(e["p"][:via])]
            if not is_dataset(cand):
                base = cand
                p = "/".join(km.k.get(s, s) for s in e["p"][via:])
        except Exception:
            base = root
    if op == "create_group":
        base.create_group(p)
    elif op == "require_group":
        base.require_group(p)
    elif op == "set_dataset":
        if e.get("how") == "create_dataset":
            base.create_dataset(p, data=pool[e["v"]])
        else:
            base[p] = pool[e["v"]]
    elif op == "delete":
        del base[p]
    elif op == "set_attr":
        base[p].attrs[km.ak.get(e["key"], e["key"])] = pool[e["v"]]
    elif op == "del_attr":
        del base[p].attrs[km.ak.get(e["key"], e["key"])]
    elif op == "copy":
        root.copy(p, km.path(e["q"]))
    elif op == "copyx":
        root.copy(p, km.path(e["q"]), shallow=e["shallow"], without_attrs=e["noattrs"])
    elif op == "require_dataset":
        base.require_dataset(p, shape=(), dtype="int64", data=pool[e["v"]])
    elif op == "move":
        root.move(p, km.path(e["q"]))
    elif op == "set_elem":
        base[p][e["k"]] = e["b"]
    elif op == "copy_into_patch":
        base[p].copy_into_patch()
    else:
        raise ValueError(f"unknown op {op}")


# --------------------------------------------------------------------------------------
# state-aware random operation generator

USER_OPS = ["create_group", "set_dataset", "delete", "set_attr", "del_attr", "copy", "move", "require_group",
            "copyx", "require_dataset", "set_elem", "copy_into_patch"]


def gen_op(rng: random.Random, view: List[Dict[str, Any]], *, depth: int = 3,
           values: List[str] = None, weights: Dict[str, float] = None,
           allow_copy_into_self: bool = True, attr_values: List[str] = None,
           attr_keys: List[str] = None, graves: List[List[str]] = None) -> Dict[str, Any]:
    """Pick an operation with arguments drawn from the current view (mostly valid).

    graves: paths that existed earlier in the history and do not exist now; new nodes are created
    at or below them with raised probability (re-creation on top of deletion markers).
    """
    values = values or ["v1", "v2", "v3", "v4", "v5"]
    # attribute values: non-UTF-8 byte strings are excluded (known finding: IH5 copies
    # attributes through Python values and h5py hands such values out as surrogate-escaped str)
    attr_values = attr_values or [v for v in values if v != "v8"] or ["v1"]
    attr_keys = attr_keys or ABSTRACT_ATTRS
    w = {"create_group": 3, "set_dataset": 4, "delete": 3, "set_attr": 3, "del_attr": 1.5,
         "copy": 2, "move": 1.5, "require_group": 0.7, "copyx": 0, "require_dataset": 0, "set_elem": 0, "copy_into_patch": 0}
    if weights:
        w.update(weights)
    ops = list(w)
    op = rng.choices(ops, [w[o] for o in ops])[0]
    nodes = {tuple(n["p"]): n for n in view}
    groups = [p for p, n in nodes.items() if n["k"] == "g"]
    existing = [p for p in nodes if p]
    datasets = [p for p, n in nodes.items() if n["k"] == "d"]

    def fresh(maxextra=2):
        if graves and rng.random() < 0.3:
            gr = [g_ for g_ in graves if tuple(g_) not in nodes and tuple(g_[:-1]) in nodes and nodes[tuple(g_[:-1])]["k"] == "g"]
            if gr:
                p = list(rng.choice(gr))
                for _ in range(rng.randint(0, maxextra)):
                    if len(p) >= depth:
                        break
                    p.append(rng.choice(ABSTRACT_KEYS))
                return p
        g = rng.choice(groups)
        p = list(g)
        for _ in range(rng.randint(1, maxextra)):
            p.append(rng.choice(ABSTRACT_KEYS))
            if len(p) >= depth:
                break
        return p[:depth] if tuple(p[:depth]) not in nodes else list(p[:depth])

    def any_path():
        return [rng.choice(ABSTRACT_KEYS) for _ in range(rng.randint(1, depth))]

    def existing_or(prob=0.8):
        if existing and rng.random() < prob:
            return list(rng.choice(existing))
        return any_path()

    e: Dict[str, Any] = {"op": op, "p": [], "q": [], "key": "", "v": "", "via": rng.choice([0, 0, 1, 2])}
    r = rng.random()
    if op in ("create_group", "require_group", "set_dataset"):
        if r < 0.75:
            e["p"] = fresh()
        elif r < 0.85 and datasets:  # below a dataset: must be refused
            e["p"] = (list(rng.choice(datasets)) + [rng.choice(ABSTRACT_KEYS)])[: depth + 1]
        else:
            e["p"] = existing_or(0.7)
        if op == "set_dataset":
            e["v"] = rng.choice(values)
            e["how"] = rng.choice(["setitem", "create_dataset"])
    elif op == "delete":
        e["p"] = existing_or(0.85)
    elif op == "set_attr":
        e["p"] = list(rng.choice(list(nodes))) if rng.random() < 0.85 else any_path()
        e["key"] = rng.choice(attr_keys)
        e["v"] = rng.choice(attr_values)
    elif op == "del_attr":
        withattr = [p for p, n in nodes.items() if n["a"]]
        if withattr and rng.random() < 0.8:
            pp = rng.choice(withattr)
            e["p"] = list(pp)
            e["key"] = rng.choice(list(nodes[pp]["a"]))
        else:
            e["p"] = list(rng.choice(list(nodes)))
            e["key"] = rng.choice(attr_keys)
    elif op in ("set_elem", "copy_into_patch"):
        arrs = [p for p in datasets if nodes[p]["v"].startswith("w")]
        if op == "set_elem" and arrs and r < 0.8:
            e["p"] = list(rng.choice(arrs))
        elif datasets and r < 0.93:
            e["p"] = list(rng.choice(datasets))
        else:
            e["p"] = existing_or(0.7)
        if op == "set_elem":
            e["k"], e["b"] = rng.choice([0, 1, 2]), rng.choice([0, 1])
    elif op == "require_dataset":
        r2 = rng.random()
        ints = [p for p in datasets if nodes[p]["v"] == "v1"]
        if r2 < 0.4 and ints:
            e["p"] = list(rng.choice(ints))       # exists with matching shape/type: returned as is
        elif r2 < 0.55 and datasets:
            e["p"] = list(rng.choice(datasets))   # exists with whatever shape/type: returned or refused
        elif r2 < 0.8:
            e["p"] = fresh()
        else:
            e["p"] = list(rng.choice(groups)) if len(groups) > 1 else fresh()
            if not e["p"]:
                e["p"] = fresh()
        e["v"] = "v1"
    elif op in ("copy", "move", "copyx"):
        if op == "copyx":
            e["shallow"] = rng.random() < 0.5
            e["noattrs"] = rng.random() < 0.5
        e["p"] = existing_or(0.9)
        if r < 0.8:
            e["q"] = fresh()
        else:
            e["q"] = existing_or(0.6)
        src = e["p"]
        forbidden = op in ("move", "copyx") or not allow_copy_into_self
        tries = 0
        while forbidden and e["q"][: len(src)] == src and tries < 5:
            e["q"] = fresh()
            tries += 1
        if forbidden and e["q"][: len(src)] == src:
            e["op"] = "delete"  # no admissible destination: do something else
            e["q"] = []
    return e
