"""C14 — merging partial metadata is a lossless, associative, non-mutating monoid."""
from __future__ import annotations

import concurrent.futures as cf
import copy
import json
import random
from typing import Any, Dict, List, Optional, Set

from . import common, compat
from .common import Report, cfg_text, run_tlc

BASE_CONST = {"AVals": {"0", "7"}, "PVals": {"0"}, "RVals": {"0"}, "Tags": {1, 2}}


def tlc_cases(rep: Report, wd, name: str, consts: Dict[str, Any], lvals: str, svals: str, out):
    consts = {"Stride3": 1, **consts}
    cfg = cfg_text("Spec", constants=consts, invariants=["LeftId", "RightId", "Assoc", "ListsConcat", "SetsUnion",
                                                          "NoValueDropped", "LaterWins", "HarvestIsFold",
                                                          "HarvestEmptySourcesNeutral", "HarvestLossless"],
                   postcondition="Export")
    cfg = cfg.replace("CONSTANTS\n", f"CONSTANTS\n  LVals <- {lvals}\n  SVals <- {svals}\n")
    r = run_tlc("MC_PartialMerge", cfg, wd, workers=common.NCPU,
                env={"OUT_FILE": str(out), "OUT3_FILE": str(out) + ".triples"}, tag="_" + name, timeout=3000)
    rep.add_tlc(name, r, constants={k: sorted(v) if isinstance(v, set) else v for k, v in consts.items()},
                lists=lvals, sets=svals, exhaustive=True)
    if r.violated:
        rep.violation(f"TLC: law {r.violated} violated in the PartialMerge model ({name})", {"tlc_out": r.out[-4000:]})
        return None
    if not r.ok or not out.exists():
        rep.machinery(f"TLC failed on PartialMerge ({name}): {r.error or r.out[-600:]}")
        return None
    return json.loads(out.read_text())


# --------------------------------------------------------------------------------------
# concretisation: two model families


from .c14models import families  # noqa: E402


def build(fam, w: Dict[str, Any], how: str):
    """A real partial instance for the abstract value w, produced in the given way (or None if that way
    cannot express w)."""
    P = fam["P"]
    kw: Dict[str, Any] = {}
    for f in ("a", "b"):
        if w[f]["has"]:
            kw[f] = fam["atom"][f][w[f]["v"]]
    if w["l"]["has"]:
        kw["l"] = [fam["elem"][e] for e in w["l"]["v"]]
    if w["s"]["has"]:
        kw["s"] = {fam["elem"][e] for e in w["s"]["v"]}
    nkw: Dict[str, Any] = {}
    n = w["n"]
    if n["has"]:
        for f in ("p", "q", "r"):
            if n[f]["has"]:
                nkw[f] = fam["atom"][f][n[f]["v"]]
    if how == "construct":
        if n["has"]:
            kw["n"] = fam["NP"][n["tag"]](**nkw)
        return P(**kw)
    if how == "construct_nested_complete":
        if n["has"]:
            kw["n"] = fam["N"][n["tag"]](**nkw)
        return P.construct(**kw)
    if n["has"] and n["tag"] != 1:
        return None  # plain data cannot say which subclass the nested object has
    d = dict(kw)
    if n["has"]:
        d["n"] = nkw
    if how == "parse_obj":
        return P.parse_obj(d)
    jd = {k: (sorted(v) if isinstance(v, set) else v) for k, v in d.items()}
    if how == "parse_raw_json":
        return P.parse_raw(json.dumps(jd))
    if how == "parse_raw_yaml":
        if not fam["yaml"]:
            return None
        import yaml as _y  # provided by pydantic_yaml's dependency
        return P.parse_raw(_y.safe_dump(jd))
    if how == "to_partial":
        if not (w["l"]["has"] and w["s"]["has"]):
            return None  # a complete object always has a list and a set
        if n["has"]:
            kw["n"] = fam["N"][1](**nkw)
        return P.to_partial(fam["M"](**kw))
    raise ValueError(how)


def project(fam, obj) -> Dict[str, Any]:
    """Abstract value of a real partial (tokens by reverse lookup)."""
    def atom(f, v):
        if v is None:
            return {"has": False, "v": ""}
        for t, c in fam["atom"][f].items():
            if c == v and type(c) is type(v):
                return {"has": True, "v": t}
        return {"has": True, "v": f"?{v!r}"}

    def elem(v):
        for t, c in fam["elem"].items():
            if c == v and type(c) is type(v):
                return t
        return f"?{v!r}"
    d = obj.__dict__
    out = {"a": atom("a", d.get("a")), "b": atom("b", d.get("b"))}
    lv, sv = d.get("l"), d.get("s")
    out["l"] = {"has": lv is not None, "v": [elem(e) for e in (lv or [])]}
    out["s"] = {"has": sv is not None, "v": sorted(elem(e) for e in (sv or set()))}
    nv = d.get("n")
    if nv is None:
        out["n"] = {"has": False, "tag": 0, "p": {"has": False, "v": ""}, "q": {"has": False, "v": ""},
                    "r": {"has": False, "v": ""}}
    else:
        tag = 0
        for t in (2, 1):
            if isinstance(nv, (fam["NP"][t], fam["N"][t])):
                tag = t
                break
        nd = nv.__dict__
        out["n"] = {"has": True, "tag": tag, "p": atom("p", nd.get("p")), "q": atom("q", nd.get("q")),
                    "r": atom("r", nd.get("r"))}
    return out


def norm(w):
    w = copy.deepcopy(w)
    w["s"]["v"] = sorted(w["s"]["v"])
    return w


WAYS = ["construct", "construct_nested_complete", "parse_obj", "parse_raw_json", "parse_raw_yaml", "to_partial"]


def conformance(rep: Report, fam, cases: List[Dict[str, Any]], rng: random.Random, label: str, limit: Optional[int]):
    idx = list(range(len(cases)))
    if limit and len(idx) > limit:
        rng.shuffle(idx)
        idx = idx[:limit]
    n = 0
    nconf = 0
    ways_used: Dict[str, int] = {}
    for k in idx:
        c = cases[k]
        hx, hy = rng.choice(WAYS), rng.choice(WAYS)
        try:
            x, y = build(fam, c["x"], hx), build(fam, c["y"], hy)
        except Exception as ex:
            rep.violation(f"{label}: building a partial failed ({hx}/{hy}): {type(ex).__name__}: {str(ex)[:200]}",
                          {"case": c, "ways": [hx, hy]})
            continue
        if x is None:
            hx, x = "construct", build(fam, c["x"], "construct")
        if y is None:
            hy, y = "construct", build(fam, c["y"], "construct")
        ways_used[hx] = ways_used.get(hx, 0) + 1
        ways_used[hy] = ways_used.get(hy, 0) + 1
        # the way a partial was produced must not matter for what it provides
        for w, o, h in ((c["x"], x, hx), (c["y"], y, hy)):
            if project(fam, o) != norm(w):
                rep.violation(f"{label}: partial built by {h} does not hold what was provided: {project(fam, o)} vs {norm(w)}",
                              {"case": c, "way": h})
        before = (repr(x.__dict__), repr(y.__dict__), project(fam, x), project(fam, y))
        n += 1
        for ow in (False, True):
            try:
                m = x.merge_with(y, allow_overwrite=ow)
                got: Any = project(fam, m)
            except ValueError as ex:
                got = "conflict" if "overwrite" in str(ex) else f"ValueError: {str(ex)[:150]}"
            except Exception as ex:
                got = f"{type(ex).__name__}: {str(ex)[:150]}"
            if ow:
                exp: Any = norm(c["vow"])
                okay = got == exp
            else:
                exp = "conflict" if c["conflict"] else norm(c["v"])
                okay = got == exp or (c["conflict"] and c["lenient"] and got == norm(c["vow"]))
                nconf += 1 if c["conflict"] else 0
            if not okay:
                rep.violation(f"{label}: merge_with(allow_overwrite={ow}) of x({hx}) and y({hy}) differs from the "
                              f"specification: got {got}, expected {exp}", {"x": c["x"], "y": c["y"], "ways": [hx, hy]})
                break
        after = (repr(x.__dict__), repr(y.__dict__), project(fam, x), project(fam, y))
        if before != after:
            rep.violation(f"{label}: merge_with mutated an operand", {"case": c, "before": before[:2], "after": after[:2]})
        rep.nontrivial.add((label, k))
    rep.evaluations += n * 2
    rep.parts[label] = {"pairs": n, "expected_conflicts": nconf, "ways": ways_used}


def real_laws(rep: Report, fam, universe: List[Dict[str, Any]], rng: random.Random, ntriples: int, label: str):
    """Associativity, identities and the merge() classmethod directly on real objects (random triples)."""
    P = fam["P"]
    bad = 0
    for _ in range(ntriples):
        ws = [rng.choice(universe) for _ in range(3)]
        hs = [rng.choice(WAYS) for _ in range(3)]
        objs = []
        for w, h in zip(ws, hs):
            o = build(fam, w, h) or build(fam, w, "construct")
            objs.append(o)
        x, y, z = objs
        for ow in (False, True):
            errs = []

            def m(a, b):
                try:
                    return a.merge_with(b, allow_overwrite=ow)
                except ValueError as ex_:
                    if "overwrite" not in str(ex_):
                        errs.append(f"ValueError: {str(ex_)[:120]}")
                    return None
                except Exception as ex_:  # anything but the documented conflict is a failure of merge itself
                    errs.append(f"{type(ex_).__name__}: {str(ex_)[:120]}")
                    return None
            lft = m(x, y)
            lft = m(lft, z) if lft is not None else None
            rgt = m(y, z)
            rgt = m(x, rgt) if rgt is not None else None
            try:
                red = P.merge(x, y, z, allow_overwrite=ow)
            except ValueError:
                red = None
            except Exception as ex_:
                errs.append(f"merge(): {type(ex_).__name__}: {str(ex_)[:120]}")
                red = None
            if errs:
                bad += 1
                rep.violation(f"{label}: merging raised something other than the documented conflict: {errs[0]}",
                              {"x": ws[0], "y": ws[1], "z": ws[2], "ways": hs})
                break
            pl = project(fam, lft) if lft is not None else "conflict"
            pr = project(fam, rgt) if rgt is not None else "conflict"
            pm = project(fam, red) if red is not None else "conflict"
            if pl != pr or pl != pm:
                bad += 1
                rep.violation(f"{label}: associativity on real objects fails (allow_overwrite={ow}): (x+y)+z={pl}, "
                              f"x+(y+z)={pr}, merge(x,y,z)={pm}", {"x": ws[0], "y": ws[1], "z": ws[2], "ways": hs})
                break
        e = P()
        for o, w in ((x, ws[0]),):
            if project(fam, e.merge_with(o)) != norm(w) or project(fam, o.merge_with(e)) != norm(w):
                rep.violation(f"{label}: the empty partial is not an identity for {norm(w)}", {"x": w})
    rep.evaluations += ntriples
    rep.parts[label] = {"random_triples": ntriples, "violations": bad}


def roundtrip(rep: Report, fam, universe, label):
    """to_partial(complete).from_partial() == complete, for every complete-able value."""
    n = 0
    for w in universe:
        if not (w["l"]["has"] and w["s"]["has"]) or (w["n"]["has"] and w["n"]["tag"] != 1):
            continue
        kw: Dict[str, Any] = {}
        for f in ("a", "b"):
            if w[f]["has"]:
                kw[f] = fam["atom"][f][w[f]["v"]]
        kw["l"] = [fam["elem"][e] for e in w["l"]["v"]]
        kw["s"] = {fam["elem"][e] for e in w["s"]["v"]}
        if w["n"]["has"]:
            kw["n"] = fam["N"][1](**{f: fam["atom"][f][w["n"][f]["v"]] for f in ("p", "q") if w["n"][f]["has"]})
            if w["n"]["r"]["has"]:
                continue
        obj = fam["M"](**kw)
        back = fam["P"].to_partial(obj).from_partial()
        n += 1
        if back != obj or type(back) is not type(obj):
            rep.violation(f"{label}: to_partial/from_partial round trip changed the object: {obj!r} -> {back!r}", {"value": w})
    rep.parts[label] = {"objects": n}
    rep.evaluations += n


def harvest_pipelines(rep: Report, fam, triples: List[Dict[str, Any]], rng: random.Random, wd, label: str):
    """harvest() over three sources (+ sources that find nothing) = Harvest of the specification."""
    import itertools
    from pathlib import Path
    from metador_core.harvester import (FileHarvester, Harvester, file_harvester_pipeline, harvest, metadata_loader)
    M, P = fam["M"], fam["P"]

    class Given(Harvester):       # a harvester that constructs its partial itself
        made: Any = None

        def run(self):
            return type(self).made()

    class FromFile(FileHarvester):   # a file harvester configured through file_harvester_pipeline
        @property
        def schema(self):
            return P

        def run(self):
            return self.schema.parse_file(self.args.filepath)

    d = Path(wd) / "harvest"
    d.mkdir(exist_ok=True)
    kinds_used: Dict[str, int] = {}
    n = nconf = 0
    for ci, c in enumerate(triples):
      state0 = rng.getstate()
      for complete in (False, True):     # harvester instances are configured for one run: build the sources twice
        if complete and c["conflict"]:
            break
        rng.setstate(state0)
        srcs, kinds = [], []
        for pos, w in enumerate((c["x"], c["y"], c["z"])):
            kind = rng.choice(["harvester", "harvester", "path_json", "path_yaml", "sidecar", "pipeline"])
            way = rng.choice(WAYS)
            if w["n"]["has"] and w["n"]["tag"] != 1:
                kind = "harvester"    # a file cannot say that the nested object is of the subclass
            o = build(fam, w, way) or build(fam, w, "construct")
            if project(fam, o) != norm(w):
                rep.violation(f"{label}: partial built by {way} does not hold what was provided", {"value": w, "way": way})
            f = d / f"s{pos}.{'yaml' if kind in ('path_yaml', 'sidecar') else 'json'}"
            if kind == "harvester":
                H = type("Given_" + way, (Given,), {"made": staticmethod(lambda w_=w, way_=way: build(fam, w_, way_) or build(fam, w_, "construct"))})
                srcs.append([H()])
            elif kind in ("path_json", "path_yaml"):
                f.write_text(o.json() if kind == "path_json" else o.yaml())
                srcs.append([f])
            elif kind == "sidecar":
                data = d / f"data{pos}.bin"
                data.write_bytes(b"x")
                Path(str(data) + "_meta.yaml").write_text(o.yaml())
                srcs.append([metadata_loader(M, use_sidecar=True)(filepath=data)])
            else:
                f.write_text(o.json())
                srcs.append(list(file_harvester_pipeline(FromFile)(f)))
            kinds.append(kind + "/" + way)
            kinds_used[kind] = kinds_used.get(kind, 0) + 1
        # sources that find nothing (a metadata file that does not exist) at random positions
        for _ in range(rng.choice([0, 1, 2])):
            srcs.insert(rng.randint(0, len(srcs)), [d / "does_not_exist.yaml"])
        flat = list(itertools.chain.from_iterable(srcs))
        if complete:
            exp = norm(c["v"])
            # the completed object holds exactly the merged values (defaults where nothing was provided)
            try:
                full = harvest(M, iter(flat))
                back = project(fam, P.to_partial(full))
                e2 = copy.deepcopy(exp)
                for k_, dflt in (("l", []), ("s", [])):
                    if not e2[k_]["has"]:
                        e2[k_] = {"has": True, "v": dflt}
                if type(full) is not M or back != e2:
                    rep.violation(f"{label}: the completed harvest result differs from the merged partial: {back} vs {e2}",
                                  {"x": c["x"], "y": c["y"], "z": c["z"], "sources": kinds})
            except Exception as ex:
                rep.violation(f"{label}: completing the harvest result raised {type(ex).__name__}: {str(ex)[:150]}",
                              {"x": c["x"], "y": c["y"], "z": c["z"], "sources": kinds})
            continue
        n += 1
        try:
            got: Any = project(fam, harvest(M, iter(flat), return_partial=True))
        except ValueError as ex:
            got = "conflict" if "overwrite" in str(ex) else f"ValueError: {str(ex)[:150]}"
        except Exception as ex:
            got = f"{type(ex).__name__}: {str(ex)[:150]}"
        exp: Any = "conflict" if c["conflict"] else norm(c["v"])
        nconf += 1 if c["conflict"] else 0
        if got != exp and not (c["conflict"] and c["lenient"] and isinstance(got, dict)):
            rep.violation(f"{label}: harvest() over sources {kinds} differs from the specification: got {got}, expected {exp}",
                          {"x": c["x"], "y": c["y"], "z": c["z"], "sources": kinds})
            continue
        rep.nontrivial.add((label, ci))
    rep.evaluations += n
    rep.parts[label] = {"pipelines": n, "expected_conflicts": nconf, "source_kinds": kinds_used}
    if n and (nconf == 0 or nconf == n):
        rep.machinery(f"{label}: vacuous ({nconf} conflicts of {n})")


def degenerate_classes(rep: Report):
    """The laws at the degenerate end: the partial of a factory's base model and of classes without fields."""
    from metador_core.schema import MetadataSchema
    from .c14models import PlainBase, PlainPartials, Z0, PZ0
    n = 0
    for what, model, P in (("MetadataSchema (base model of its factory)", MetadataSchema, MetadataSchema.Partial),
                           ("plain base model of a PartialFactory", PlainBase, PlainPartials.get_partial(PlainBase)),
                           ("field-less MetadataSchema subclass", Z0, Z0.Partial),
                           ("field-less plain model", PZ0, PlainPartials.get_partial(PZ0))):
        n += 1
        try:
            e = P()
            m = e.merge_with(P())
            m2 = P.merge(e, P(), P())
            full = model()
            back = P.to_partial(full).from_partial()
            if m != e or m2 != e or back != full or type(back) is not model or type(m) is not P:
                rep.violation(f"degenerate_classes: identity / round trip fails for the partial of {what}", {"class": what})
        except Exception as ex:
            rep.violation(f"degenerate_classes: merging / converting the partial of {what} raised {type(ex).__name__}: "
                          f"{str(ex)[:150]}", {"class": what})
    rep.parts["degenerate_classes"] = {"classes": n}
    rep.evaluations += n


def run(tier: str) -> int:
    rep = Report("C14", tier)
    quick = tier == "quick"
    seed = common.seed()
    rng = random.Random(seed)
    rep.assumptions += [compat.ASSUMPTION,
                        "atoms are concretised as ints/bools (MetadataSchema family) and as str/float incl. '' and 0.0 "
                        "(plain pydantic family with its own PartialFactory)",
                        "for equal atoms provided on both sides both 'conflict' and the common value are accepted"]
    rep.rule = ("TLC checks identity, associativity, list/set/nested laws, no-value-dropped and later-wins for all triples of a "
                "90-value universe and all pairs of a 486-value universe (incl. falsy atoms, empty list/set, nested models of two "
                "classes in a chain) and exports the expected outcome of every (strided) pair; each pair is built on real partial "
                "classes in a randomly chosen way (constructed, constructed with complete nested object, parse_obj, JSON, YAML, "
                "to_partial of a complete object), merged with and without overwrite and compared, operands checked for mutation; "
                "random triples are checked directly on real objects; distinct = distinct (family, pair)")
    wd = common.workdir("C14")
    try:
        with cf.ThreadPoolExecutor(max_workers=2) as ex:
            f1 = ex.submit(tlc_cases, rep, wd, "laws_all_triples",
                           {**BASE_CONST, "AVals": {"0"}, "BVals": set(), "QVals": set(), "PairsOnly": False, "Stride": 1,
                            "Stride3": 397 if quick else 23},
                           "L_small", "S_one", wd / "cases_small.json")
            f2 = ex.submit(tlc_cases, rep, wd, "laws_all_pairs_rich",
                           {**BASE_CONST, "BVals": {"F"}, "QVals": {"F"}, "PairsOnly": True, "Stride": 41 if quick else 7},
                           "L_small" if quick else "L_big", "S_small", wd / "cases_rich.json")
            small, rich = f1.result(), f2.result()
        if small is None or rich is None:
            return rep.finish()
        triples = json.loads((wd / "cases_small.json.triples").read_text())
        fams = families()
        degenerate_classes(rep)
        common.apalache_laws(rep, wd, "PartialMergeUnbounded", "value_independent_laws_apalache",
                             "arbitrary integer atoms, integer lists and sets with up to three elements, both nested classes")
        harvest_pipelines(rep, fams[0], triples, rng, wd, "harvest_pipelines[MetadataSchema]")
        for fam in fams:
            tagname = fam["name"].split()[0]
            conformance(rep, fam, small, rng, f"pairs_small[{tagname}]", 2500 if quick else None)
            conformance(rep, fam, rich, rng, f"pairs_rich[{tagname}]", 4000 if quick else None)
            universe = list({json.dumps(c["x"], sort_keys=True): c["x"] for c in rich}.values())
            real_laws(rep, fam, universe, rng, 600 if quick else 15000, f"triples_on_real_objects[{tagname}]")
            roundtrip(rep, fam, universe, f"to_partial_roundtrip[{tagname}]")
        rep.traces = sum(v.get("pairs", 0) for v in rep.parts.values() if isinstance(v, dict))
        c = rich[len(rich) // 3]
        rep.sample({"x": c["x"], "y": c["y"], "expected_conflict": c["conflict"], "expected_with_overwrite": c["vow"]})
    except common.MachineryError as e:
        rep.machinery(str(e)[:2500])
    finally:
        common.cleanup(wd)
    return rep.finish()
