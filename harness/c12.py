"""C12 — schema instances survive serialisation unchanged."""
import json
import random
from typing import Any, Dict, List, Literal, Optional, Set, Union

from . import common, compat
from .common import Report, cfg_text, run_tlc

STRINGY = {"str", "nestr", "duration", "unit", "quantity", "literal", "url"}
PRIMS = ["bool", "int", "float", "str", "nestr", "duration", "unit", "quantity", "literal", "url"]

STR_POOL = ["x", "äöü ✓", "line\nbreak", "\"quoted\"", "yes", "no", "null", "~", "1.0", "0123", "- item", "# c", "@id", "a: b",
            "{}", "[1]", "true", "  padded  ", "tab\there", "'single'", "\\back", "é" * 40, "%", "!tag", "&anchor", "*alias", "|",
            ">", "0x1F", "1e3", ".inf", "2001-01-01", "=", "NaN",
            # beyond the Basic Multilingual Plane (JSON writes surrogate pairs), other awkward code points
            # longer than a YAML line, with runs of spaces where a writer would fold
            "w" * 70 + "   " + "v" * 30, ("word  " * 30).strip(), "x" * 200,
            "smile \U0001F600", "\U0001D6FC", "\U00020BB7 han", "\u2028 ls", "nbsp\u00a0", "\x7f del", "zero\u200bwidth"]


def prim_types():
    from pydantic import AnyHttpUrl
    from metador_core.schema import types as T
    return {"bool": T.Bool, "int": T.Int, "float": T.Float, "str": T.Str, "nestr": T.NonEmptyStr, "duration": T.Duration,
            "unit": T.PintUnit, "quantity": T.PintQuantity, "literal": Literal["a", "b"], "url": AnyHttpUrl}


def pool(kind: str, rng: random.Random):
    """Two distinct concrete values for the two tokens of a primitive kind."""
    from metador_core.schema import types as T
    if kind == "bool":
        return [True, False]
    if kind == "int":
        return rng.sample([0, -1, 1, 2 ** 53 + 1, -(2 ** 63), 10 ** 30, 7], 2)
    if kind == "float":
        return rng.sample([0.5, 1e-300, 1e300, 0.1 + 0.2, -2.75, 1 / 3, 5e-324, 123456789.123456789, -0.0 + 1.0], 2)
    if kind in ("str", "nestr"):
        return rng.sample(STR_POOL, 2)
    # string-encoded kinds are given as text or as the objects a program would pass (chosen per value)
    if kind == "duration":
        a, b = rng.sample(["PT3H4M1S", "P1D", "PT0.5S", "P2W", "PT36H", "P1DT1S", "PT1M",
                           ("obj", dict(days=3)), ("obj", dict(months=1, days=2)), ("obj", dict(years=1, hours=12)),
                           ("obj", dict(weeks=1, seconds=0.25)), ("obj", dict(days=-1)), ("obj", dict(days=-2)), "-P1D"], 2)
        return [T.Duration(**x[1]) if isinstance(x, tuple) else x for x in (a, b)]
    if kind == "unit":
        return [T.PintUnit(x) if rng.random() < 0.4 else x
                for x in rng.sample(["meter", "kilogram / second ** 2", "candela * meter", "1 / second", "kelvin",
                                     "1 / meter", "1 / meter ** 2",
                                     # prefixed units whose abbreviation would spell another unit (kt, min, cd, Pa)
                                     "kilotonne", "milliinch", "centiday", "petayear", "micrometer"], 2)]
    if kind == "quantity":
        return [T.PintQuantity(x) if rng.random() < 0.4 else x
                # (-1 and -2 have the same Python hash)
                for x in rng.sample(["5 meter", "7.12 kilogram / second ** 2", "0 second", "1e-09 meter", "-3 kelvin", "2.5 1 / second",
                                     "-1 meter", "-2 meter", "5 kilotonne", "3 milliinch", "2 centiday / second"], 2)]
    if kind == "literal":
        return ["a", "b"]
    if kind == "url":
        return rng.sample(["http://example.org", "https://example.org/p?q=1#f", "http://localhost:8080/x y".replace(" ", "%20"),
                           "https://user@example.org/a/b/"], 2)
    raise ValueError(kind)


_counter = [0]


def make_class(case, rng):
    """The real MetadataSchema subclass for a shape, plus the token -> concrete value maps."""
    from metador_core.schema import MetadataSchema
    from metador_core.schema.decorators import add_const_fields
    from metador_core.schema.ld import ld
    PT = prim_types()
    _counter[0] += 1
    uid = _counter[0]
    values: Dict[str, Any] = {}
    anns: Dict[str, Any] = {}
    defaults: Dict[str, Any] = {}
    inner_classes = {}

    def conc(kind):
        if kind not in values:
            a, b = pool(kind, rng)
            values[kind + "#1"], values[kind + "#2"] = a, b
            values[kind] = True
        return PT[kind]

    for j, f in enumerate(case["fields"], start=1):
        name = f"f{j}"
        c, a, b = f["c"], f["a"], f["b"]
        if c == "prim":
            anns[name] = conc(a)
        elif c == "opt":
            anns[name] = Optional[conc(a)]
        elif c == "optdef":
            anns[name] = Optional[conc(a)]
            defaults[name] = values[a + "#1"]
        elif c == "list":
            anns[name] = List[conc(a)]
        elif c == "set":
            anns[name] = Set[conc(a)]
        elif c == "union":
            anns[name] = Union[conc(a), conc(b)]
        else:
            conc(a)
            inner = type(MetadataSchema)(f"Inner{uid}_{j}", (MetadataSchema,), {"__annotations__": {"v": PT[a]}})
            inner_classes[name] = inner
            anns[name] = inner if c == "nested" else Optional[inner]
    constname, constval = None, None
    base = MetadataSchema
    use_ld = uid % 2 == 0
    if case["const"] in ("inherited", "overridden"):
        base = type(MetadataSchema)(f"Base{uid}", (MetadataSchema,), {"__annotations__": {}})
        base = (ld(type="K1") if use_ld else add_const_fields({"c0": "K1"}))(base)
    cls = type(MetadataSchema)(f"Gen{uid}", (base,), {"__annotations__": anns, **defaults})
    if case["const"] == "own":
        cls = (ld(type="K1") if use_ld else add_const_fields({"c0": "K1"}))(cls)
    if case["const"] == "overridden":
        cls = (ld(type="K2") if use_ld else add_const_fields({"c0": "K2"}, override=True))(cls)
    if case["const"] != "none":
        constname = "@type" if use_ld else "c0"
        constval = "K2" if case["const"] == "overridden" else "K1"
    return cls, values, inner_classes, constname, constval


def concrete(val, f, name, values, inner_classes):
    k, v = val["k"], val["v"]
    if k == "absent":
        return None
    if k == "a":
        return values[v[0]]
    if k == "l":
        return [values[x] for x in v]
    if k == "s":
        return {values[x] for x in v}
    if k == "o":
        return inner_classes[name](v=values[v[0]])
    raise ValueError(k)


def hashable_kinds():
    out = set()
    PT = prim_types()
    rng = random.Random(0)
    from pydantic import BaseModel, create_model
    for kind in PRIMS:
        try:
            a, b = pool(kind, rng)
            M = create_model("M", v=(PT[kind], ...))
            {M(v=a).v, M(v=b).v}
            out.add(kind)
        except Exception:
            pass
    return out


def run(tier: str) -> int:
    rep = Report("C12", tier)
    quick = tier == "quick"
    seed = common.seed()
    rng = random.Random(seed)
    rep.assumptions += [compat.ASSUMPTION,
                        "Unions of two string-encoded kinds (e.g. Union[str, Duration]) are excluded: JSON cannot tell them apart",
                        "value tokens are concretised from boundary pools (YAML keywords, unicode, big ints, tiny/huge floats, "
                        "ISO durations, pint units/quantities, URLs); float formatting / YAML scalar quirks outside the pools are not decided",
                        "Set[...] only for kinds whose values are hashable"]
    rep.rule = ("TLC enumerates class shapes (field types prim/Optional/Optional-with-default/List/Set/Union/nested/Optional nested over "
                "10 primitive kinds, constants own/inherited/overridden via add_const_fields or @ld) and all abstract instances, checks "
                "the codec laws on the abstract JSON and exports every (shape, instance); each is built as a real MetadataSchema "
                "subclass and checked: parse_raw of json(), bytes() and yaml() equals the instance, second round trip identical, "
                "JSON keys as specified, constants forced on dump and ignored on load, explicit None reads as the default; installed "
                "schema plugins are round-tripped with generated instances; distinct = distinct (shape, instance, value draw)")
    wd = common.workdir("C12")
    try:
        from metador_core.plugins import schemas
        configs = [("codec_model", set(PRIMS), 1, 1)]
        if not quick:   # two fields per class over five kinds (one per encoding family)
            configs.append(("codec_model_two_fields", {"bool", "int", "str", "duration", "quantity"}, 2, 31))
        cases = []
        for name, prims, nf, stride in configs:
            out = wd / f"cases_{name}.json"
            cfg = cfg_text("Spec", constants={"Prims": prims, "MaxFields": nf, "Stride": stride},
                           invariants=["RoundTrip", "SecondRoundTripStable", "ConstsAlwaysDumped", "ConstsIgnoredOnLoad",
                                       "NoneReadsAsDefault"], postcondition="Export")
            r = run_tlc("SchemaCodec", cfg, wd, env={"OUT_FILE": str(out)}, timeout=3400, tag="_" + name)
            rep.add_tlc(name, r, prims=sorted(prims), max_fields=nf, export_stride=stride, exhaustive=True)
            if r.violated:
                rep.violation(f"TLC: {r.violated} violated in the SchemaCodec model", {"tlc_out": r.out[-4000:]})
            elif not r.ok or not out.exists():
                rep.machinery(f"TLC failed on SchemaCodec ({name}): {r.error or r.out[-600:]}")
                return rep.finish()
            cases += json.loads(out.read_text())
        hk = hashable_kinds()
        n = skipped = 0
        for case in cases:
            fs = case["fields"]
            if any(f["c"] == "union" and f["a"] in STRINGY and f["b"] in STRINGY for f in fs):
                skipped += 1
                continue
            if any(f["c"] == "set" and f["a"] not in hk for f in fs):
                skipped += 1
                continue
            try:
                cls, values, inner, cname, cval = make_class(case, rng)
            except Exception as ex:
                rep.violation(f"defining a schema class for {fs} const={case['const']} failed: {type(ex).__name__}: {str(ex)[:200]}",
                              {"case": case})
                continue
            kw = {}
            for j, (f, val) in enumerate(zip(fs, case["inst"]), start=1):
                c = concrete(val, f, f"f{j}", values, inner)
                if c is not None:
                    kw[f"f{j}"] = c
            n += 1
            rep.nontrivial.add(json.dumps([case["fields"], case["const"], case["inst"]]) + repr(sorted(map(repr, kw.values()))))
            label = f"fields={[(f['c'], f['a'], f['b']) for f in fs]} const={case['const']} values={kw!r}"
            try:
                x = cls(**kw)
                js = x.json()
                forms = {"json": js, "bytes": bytes(x), "yaml": x.yaml()}
                for nm, data in forms.items():
                    back = cls.parse_raw(data)
                    if back != x or type(back) is not cls:
                        rep.violation(f"{nm} round trip changed the instance: {label}: {data!r} -> {back!r}", {"case": case, "form": nm})
                    elif bytes(back) != forms["bytes"]:
                        rep.violation(f"second round trip via {nm} is not stable: {label}", {"case": case, "form": nm})
                d = json.loads(js)
                exp_keys = {(cname if k == 0 else f"f{k}") for k in case["keys"]}
                if set(d.keys()) != exp_keys:
                    rep.violation(f"JSON keys {sorted(d.keys())} differ from the specification {sorted(exp_keys)}: {label}", {"case": case})
                if cname:
                    if d.get(cname) != cval or x.json_dict().get(cname) != cval:
                        rep.violation(f"constant field {cname} not dumped with its constant value {cval}: {label}: {js}", {"case": case})
                    d2 = dict(d)
                    d2[cname] = "tampered"
                    y = cls.parse_obj(d2)
                    if y != x or json.loads(y.json()).get(cname) != cval:
                        rep.violation(f"constant field on input was not ignored: {label}", {"case": case})
                # instances obtained from an already serialised one (copy with update, assignment, in-place change
                # of a nested object or list) must serialise faithfully as well
                for j, (f, val) in enumerate(zip(fs, case["inst"]), start=1):
                    name = f"f{j}"
                    if f["c"] in ("prim", "opt", "optdef", "union") and val["k"] == "a":
                        other = values[f["a"] + ("#2" if val["v"][0].endswith("#1") else "#1")]
                        x2 = x.copy(update={name: getattr(cls(**{**kw, name: other}), name)})
                        if cls.parse_raw(bytes(x2)) != x2 or cls.parse_raw(x2.json()) != x2:
                            rep.violation(f"instance derived by copy(update=...) after a first dump does not round trip: {label}", {"case": case})
                        x3 = cls(**kw)
                        bytes(x3)
                        setattr(x3, name, other)
                        if cls.parse_raw(bytes(x3)) != x3:
                            rep.violation(f"instance changed by assignment after a first dump does not round trip: {label}", {"case": case})
                    if f["c"] in ("nested", "optnested") and val["k"] == "o":
                        x4 = cls(**{**kw, name: inner[name](v=values[val["v"][0]])})
                        bytes(x4)
                        getattr(x4, name).v = values[f["a"] + ("#2" if val["v"][0].endswith("#1") else "#1")]
                        if cls.parse_raw(bytes(x4)) != x4:
                            rep.violation(f"instance whose nested object changed after a first dump does not round trip: {label}", {"case": case})
                    if f["c"] == "list" and val["k"] == "l":
                        x5 = cls(**kw)
                        bytes(x5)
                        getattr(x5, name).append(getattr(cls(**{**kw, name: [values[f["a"] + "#1"]]}), name)[0])
                        if cls.parse_raw(bytes(x5)) != x5:
                            rep.violation(f"instance whose list grew after a first dump does not round trip: {label}", {"case": case})
                for j, f in enumerate(fs, start=1):
                    if f["c"] == "optdef":
                        # documented convention: None means missing, so an explicit None may read back as the default
                        z = cls(**{**kw, f"f{j}": None})
                        zb = cls.parse_raw(bytes(z))
                        dflt = getattr(cls(**{k_: v_ for k_, v_ in kw.items() if k_ != f"f{j}"}), f"f{j}")
                        if getattr(zb, f"f{j}") not in (None, dflt) or \
                                zb.copy(update={f"f{j}": None}) != z.copy(update={f"f{j}": None}):
                            rep.violation(f"explicit None for a field with default read back as something else: {label}", {"case": case})
            except Exception as ex:
                rep.violation(f"serialisation raised {type(ex).__name__}: {str(ex)[:200]} for {label}", {"case": case})
        rep.parts["generated_classes"] = {"cases": n, "skipped_ambiguous_or_unhashable": skipped, "hashable_kinds": sorted(hk)}
        rep.evaluations += n
        rep.traces = n
        rep.sample({"fields": cases[len(cases) // 2]["fields"], "const": cases[len(cases) // 2]["const"],
                    "instance": cases[len(cases) // 2]["inst"], "expected_keys": cases[len(cases) // 2]["keys"]})
        # the "marked subclasses" pattern: a constant declared for a field that is inherited as an ordinary field
        # (Literal / enum specialisation), also when the inherited default already equals the constant
        from metador_core.schema import MetadataSchema as _MS
        from metador_core.schema.decorators import add_const_fields as _acf
        nspec = 0
        for dflt in ("generic", "special", None):
            for const in ("generic", "special"):
                _counter[0] += 1
                ann = {"kind": Literal["generic", "special"] if dflt is not None else Optional[Literal["generic", "special"]],
                       "v": Optional[int]}
                body = {"__annotations__": ann}
                if dflt is not None:
                    body["kind"] = dflt
                KP = type(_MS)(f"KP{_counter[0]}", (_MS,), body)
                KC = _acf({"kind": const})(type(_MS)(f"KC{_counter[0]}", (KP,), {}))
                other = "special" if const == "generic" else "generic"
                label = f"parent kind default={dflt!r}, child constant kind={const!r}"
                nspec += 1
                try:
                    for how, x in (("kwargs", KC(kind=other, v=1)), ("parse_obj", KC.parse_obj({"kind": other, "v": 1})),
                                   ("parse_raw", KC.parse_raw(json.dumps({"kind": other, "v": 1}))), ("omitted", KC(v=1))):
                        d = json.loads(x.json())
                        if d.get("kind") != const or KC.parse_raw(bytes(x)) != x or "kind" not in KC.__constants__:
                            rep.violation(f"constant over an inherited field not forced ({how}): {label}: dumped {d}", {"case": label})
                            break
                    if KP.parse_raw(bytes(KC(v=2))).kind != const:
                        rep.violation(f"the parent does not read the child's constant: {label}", {"case": label})
                except Exception as ex:
                    rep.violation(f"constant over an inherited field: {label}: {type(ex).__name__}: {str(ex)[:150]}", {"case": label})
        rep.parts["constant_specialisation"] = {"cases": nspec}
        rep.evaluations += nspec
        # installed schema plugins: generated valid instances must round trip
        ninst = 0
        inst_pool = installed_instances()
        for ref in list(schemas.keys()):
            cls = schemas._get_unsafe(ref.name, ref.version)
            for obj in inst_pool.get(ref.name, []):
                try:
                    x = cls.parse_obj(obj)
                    for nm, data in {"json": x.json(), "bytes": bytes(x), "yaml": x.yaml()}.items():
                        if cls.parse_raw(data) != x:
                            rep.violation(f"installed schema {ref.name}: {nm} round trip changed {obj}", {"schema": ref.name, "obj": obj})
                    for cn, cv in cls.__constants__.items():
                        if x.json_dict().get(cn) != json.loads(json.dumps(cv)):
                            rep.violation(f"installed schema {ref.name}: constant {cn} not dumped", {"schema": ref.name})
                    ninst += 1
                except Exception as ex:
                    rep.violation(f"installed schema {ref.name}: {type(ex).__name__}: {str(ex)[:200]} for {obj}", {"schema": ref.name, "obj": obj})
        # ... and instances generated from the field types of every installed schema (pydantic decides which boundary
        # candidates a leaf type admits; the class itself validates the whole instance)
        from . import geninst
        ngen = nsch = 0
        grng = random.Random(seed)
        for ref in sorted(schemas.keys(), key=str):
            if ref.name == "core.packerinfo":
                continue   # cannot be instantiated at the pinned commit (unresolved forward reference; see DESIGN)
            cls = schemas._get_unsafe(ref.name, ref.version)
            objs = geninst.instances(cls, grng, 25 if quick else 250)
            nsch += bool(objs)
            for x in objs:
                ngen += 1
                rep.nontrivial.add(ref.name + x.json())
                try:
                    raw = bytes(x)
                    for nm, data in {"json": x.json(), "bytes": raw, "yaml": x.yaml()}.items():
                        back = cls.parse_raw(data)
                        if back != x or type(back) is not cls:
                            rep.violation(f"installed schema {ref.name}: {nm} round trip changed the generated instance {x.json()[:300]}",
                                          {"schema": ref.name, "obj": json.loads(x.json()), "form": nm})
                        elif bytes(back) != raw:
                            rep.violation(f"installed schema {ref.name}: second round trip via {nm} is not stable for {x.json()[:300]}",
                                          {"schema": ref.name, "obj": json.loads(x.json()), "form": nm})
                    for cn, cv in cls.__constants__.items():
                        if x.json_dict().get(cn) != json.loads(json.dumps(cv)):
                            rep.violation(f"installed schema {ref.name}: constant {cn} not dumped", {"schema": ref.name})
                except Exception as ex:
                    rep.violation(f"installed schema {ref.name}: {type(ex).__name__}: {str(ex)[:200]} for generated {x!r:.300}",
                                  {"schema": ref.name})
        rep.evaluations += ngen
        rep.parts["installed_schemas"] = {"schemas_with_instances": len(inst_pool), "instances": ninst,
                                          "schemas_with_generated_instances": nsch, "generated_instances": ngen}
        if nsch < 10 or ngen < 100:
            rep.machinery(f"vacuous: generated instances for {nsch} installed schemas ({ngen} instances)")
        if n < 200 or ninst < 5:
            rep.machinery(f"vacuous: {n} generated cases, {ninst} installed-schema instances")
    except common.MachineryError as e:
        rep.machinery(str(e)[:2500])
    finally:
        common.cleanup(wd)
    return rep.finish()


def installed_instances() -> Dict[str, List[Dict[str, Any]]]:
    """Valid instances (as plain data) of installed schema plugins."""
    sha = "ab" * 32
    person = {"@id": "https://orcid.org/0000-0000-0000-0001", "givenName": "Ýá", "familyName": "O'Neil"}
    fmeta = {"@id": "./a%20b.bin", "filename": "a b.bin", "encodingFormat": "application/octet-stream", "contentSize": 0, "sha256": sha}
    return {
        "core.file": [fmeta, {"@id": "./x", "filename": "yes", "encodingFormat": "text/plain;charset=utf-8",
                               "contentSize": 2 ** 40, "sha256": sha}],
        "core.imagefile": [{**fmeta, "encodingFormat": "image/png", "width": 3, "height": 4}],
        "core.dir": [{"@id": "./d/", "name": "null"}, {}],
        "core.org": [{"@id": "https://ror.org/x", "name": "Org: \"A\" & B"}],
        "core.person": [person],
        "core.bib": [{"@id": "./", "name": "T", "abstract": "line\nbreak", "dateCreated": "2020-01-01", "author": [person]}],
        "core.table": [{"name": "t", "columns": [{"name": "yes", "unit": "meter"}, {"name": "1.0", "unit": "kilogram / second ** 2"}]}],
        "example.matsci.material": [{"materialName": "Fe", "density": 7.874, "crystalGrainType": "single_crystal"}],
        "example.matsci.instrument": [{"instrumentName": "I", "instrumentModel": "M"}],
        "example.matsci.specimen": [{"diameter": 0.5, "gaugeLength": 1e-3}],
        "example.matsci.method": [{"methodType": "tensile_test", "instrument": {"instrumentName": "I", "instrumentModel": "M"},
                                   "specimen": {"diameter": 0.5, "gaugeLength": 2.0}}],
    }
