"""The packer life cycle on real containers, validated against spec/PackerPipeline.tla (Trace_Packer.tla).

Histories of directory edits, pack and update calls (two packers, refused directories, updates by the wrong packer)
are executed with the real plugin group (packers._prepare / pack / update / _finalize), the real DirDiff, dir_hashsums
and pack_file, on h5py.File, IH5Record and IH5MFRecord; after every call a freshly opened reader projects the
container (tree, recorded source snapshot, recorded packer, file metadata), and for IH5 the newest patch container is
read with plain h5py to see which user paths the run wrote.
"""
from __future__ import annotations

import hashlib
import json
import os
import random
import shutil
from pathlib import Path
from typing import Any, Dict, List, Optional

from . import common, compat  # noqa: F401
from .c18 import mutate_tree, random_tree

KEYS = ["a", "b", "c", "d"]
# (IH5 restricts keys to a printable-ASCII grammar without spaces -- a named deviation of C01/C09; names stay inside it)
NAME_MAPS = [{}, {"a": "alpha", "b": "beta.txt", "c": "c-c", "d": "d.d"}, {"a": "a", "b": "a.b", "c": "a_b", "d": "ab"},
             {"a": "run1", "b": "run10", "c": "run2", "d": "R"}, {"a": ".hidden", "b": "A", "c": "10", "d": "9"},
             {"a": "data", "b": "data_meta.yaml", "c": "x.csv", "d": "metador"}]
# file contents per token: empty, NUL-rich, > one hash block, text
CONTENT = {"h1": b"", "h2": b"\x00\x00a\x00", "h3": bytes(range(256)) * 300}
TARGETS = {"t1": "zz-target", "t2": "nowhere"}     # in-directory, dangling (never an entry name)


def materialise(base: Path, tree: List[Dict[str, Any]], names: Dict[str, str]):
    """(Re)write the directory so that it holds exactly the snapshot (fresh inodes, arbitrary creation order)."""
    if base.exists():
        shutil.rmtree(base)
    base.mkdir(parents=True)
    for e in sorted(tree, key=lambda x: (len(x["p"]), x["p"][::-1])):
        if not e["p"]:
            continue
        p = base.joinpath(*[names.get(s, s) for s in e["p"]])
        if e["k"] == "d":
            p.mkdir()
        elif e["k"] == "f":
            p.write_bytes(CONTENT[e["v"]])
        else:
            os.symlink(TARGETS[e["v"]], p)


class Pipe:
    def __init__(self, wd: Path, driver: str, names: Dict[str, str], use_real_update: bool):
        import h5py
        from metador_core.ih5.container import IH5MFRecord, IH5Record
        self.wd, self.driver, self.names = wd, driver, names
        self.rn = {v: k for k, v in names.items()}
        self.cls = {"h5": h5py.File, "ih5": IH5Record, "mf": IH5MFRecord}[driver]
        self.src = wd / "src"
        self.target = wd / ("cont.h5" if driver == "h5" else "rec")
        self.use_real_update = use_real_update
        self.tok = {hashlib.sha256(v).hexdigest(): k for k, v in CONTENT.items()}

    # ---- the container files on disk
    def files(self) -> List[Path]:
        return sorted(p for p in self.wd.iterdir() if p.is_file() and p.name.startswith(self.target.name))

    def digests(self) -> Dict[str, str]:
        return {p.name: hashlib.sha256(p.read_bytes()).hexdigest() for p in self.files()}

    # ---- calls
    def pack(self, pk: str):
        from metador_core.plugins import packers
        packers.pack(pk, self.src, self.target, self.cls)

    def update(self, pk: str):
        from metador_core.plugins import packers
        if self.use_real_update:
            return packers.update(pk, self.src, self.target, self.cls)
        # PGPacker.update as written cannot get past reading the packer info (it asks a skel_only container for a
        # metadata object; DESIGN.md, observations) -- the same steps with the packer info read before restricting
        from metador_core.container import MetadorContainer
        from metador_core.packer import Unclosable
        from metador_core.util.diff import DirDiff
        packer, hashsums = packers._prepare(pk, self.src)
        raw = self.cls(self.target, "r+")
        try:
            container = MetadorContainer(raw)
            pinfo = container.meta.get(packers._PACKER_INFO_NAME)
            if not pinfo:
                raise ValueError("no packer info")
            curr = packers.resolve(pk)
            if not curr.supports(pinfo.packer):
                raise ValueError("incompatible packer")
            container = container.restrict(skel_only=True)
            diff = DirDiff.compare(pinfo.source_dir, hashsums)
            packer.update(Unclosable(container), self.src, diff)
            packers._finalize(pk, hashsums, container)
        except BaseException:
            try:
                if self.driver != "h5" and len(self.files()) > 1:
                    raw.discard_patch()
                raw.close()
            except Exception:
                pass
            raise

    # ---- observation
    def decode_src(self, hs, prefix=()) -> List[Dict[str, Any]]:
        out = []
        for k, v in hs.items():
            p = list(prefix) + [self.rn.get(k, k)]
            if isinstance(v, dict):
                out.append({"p": p, "k": "d", "v": ""})
                out += self.decode_src(v, p)
            elif v.startswith("symlink:"):
                tgt = v[len("symlink:"):]
                tv = next((t for t, c in TARGETS.items() if c == tgt.split("/")[-1]), "?" + tgt)
                out.append({"p": p, "k": "s", "v": tv})
            else:
                out.append({"p": p, "k": "f", "v": self.tok.get(v.split(":", 1)[-1], "?" + v[:16])})
        return out

    def observe(self) -> Dict[str, Any]:
        from metador_core.container import MetadorContainer
        ob: Dict[str, Any] = {"exists": False, "tree": [], "src": [], "by": "", "nfiles": -1, "haswrote": False, "wrote": [],
                              "filemeta": True, "note": ""}
        fs = self.files()
        if not fs:
            return ob
        ob["exists"] = True
        if self.driver != "h5":
            ob["nfiles"] = len([f for f in fs if f.name.endswith(".ih5")])
        try:
            with MetadorContainer(self.cls(self.target, "r")) as mc:
                tree = [{"p": [], "k": "d", "v": ""}]

                def walk(g, prefix):
                    for k in g.keys():
                        node = g[k]
                        p = prefix + [self.rn.get(k, k)]
                        if hasattr(node, "keys"):
                            tree.append({"p": p, "k": "d", "v": ""})
                            walk(node, p)
                        else:
                            val = node[()]
                            bs = val.tobytes() if hasattr(val, "tobytes") else b""
                            if type(val).__name__ == "Empty":
                                bs = b""
                            h = hashlib.sha256(bs).hexdigest()
                            tree.append({"p": p, "k": "f", "v": self.tok.get(h, "?" + h[:12])})
                            fm = node.meta.get("core.file")
                            if fm is None or fm.contentSize != len(bs) or str(fm.sha256).split(":")[-1] != h:
                                ob["filemeta"] = False
                                ob["note"] = f"core.file of {node.name}: {fm and (fm.contentSize, str(fm.sha256)[:20])} for {len(bs)} bytes"
                walk(mc, [])
                ob["tree"] = tree
                pi = mc.meta.get("core.packerinfo")
                if pi is not None:
                    ob["by"] = {"vf.pa": "pa", "vf.pb": "pb"}.get(pi.packer.name, pi.packer.name)
                    ob["src"] = [{"p": [], "k": "d", "v": ""}] + self.decode_src(pi.source_dir)
        except Exception as ex:
            ob["note"] = f"reader failed: {type(ex).__name__}: {str(ex)[:200]}"
            ob["tree"] = [{"p": ["UNREADABLE"], "k": "x", "v": ""}]
        if self.driver != "h5":
            # user paths present in the newest container (created, replaced or marked deleted there)
            import h5py
            newest = max((f for f in fs if f.name.endswith(".ih5")), key=lambda f: (len(f.name), f.name))
            wrote: List[List[str]] = []
            try:
                with h5py.File(newest, "r") as f:
                    def visit(name, node):
                        segs = name.split("/")
                        if any(s.startswith("metador_") for s in segs):
                            return
                        wrote.append([self.rn.get(s, s) for s in segs])
                    f.visititems(visit)
                ob["haswrote"] = True
                ob["wrote"] = wrote
            except Exception as ex:
                ob["note"] += f" newest container unreadable: {type(ex).__name__}"
        return ob


def gen_history(rng: random.Random, nsteps: int) -> List[Dict[str, Any]]:
    """Abstract history: edits, packs, updates; biased towards the interesting order (edit, then update)."""
    t = random_tree(rng, KEYS, 3)
    # tokens of this harness
    def retoken(tree):
        for e in tree:
            if e["k"] == "f":
                e["v"] = rng.choice(list(CONTENT))
            elif e["k"] == "s":
                e["v"] = rng.choice(list(TARGETS))
        return tree
    t = retoken(t)
    hist: List[Dict[str, Any]] = [{"op": "edit", "dir": t}]
    main = rng.choice(["pa", "pa", "pb"])
    for j in range(nsteps):
        r = rng.random()
        if j == 0 and r < 0.85:
            hist.append({"op": "pack", "pk": main})
        elif r < 0.4:
            t2 = mutate_tree(rng, t, KEYS, 3) if rng.random() < 0.85 else random_tree(rng, KEYS, 3)
            for e in t2:
                if e["k"] == "f" and e["v"] not in CONTENT:
                    e["v"] = rng.choice(list(CONTENT))
                if e["k"] == "s" and e["v"] not in TARGETS:
                    e["v"] = rng.choice(list(TARGETS))
            t = t2
            hist.append({"op": "edit", "dir": t})
        elif r < 0.55:
            hist.append({"op": "pack", "pk": main if rng.random() < 0.8 else ("pb" if main == "pa" else "pa")})
        else:
            hist.append({"op": "update", "pk": main if rng.random() < 0.85 else ("pb" if main == "pa" else "pa")})
    return hist


def pair_history(a, b, pk="pa") -> List[Dict[str, Any]]:
    return [{"op": "edit", "dir": a}, {"op": "pack", "pk": pk}, {"op": "edit", "dir": b}, {"op": "update", "pk": pk},
            {"op": "update", "pk": pk}]


def run_history(wd: Path, driver: str, names: Dict[str, str], hist: List[Dict[str, Any]], use_real_update: bool) -> List[Dict[str, Any]]:
    from . import packerplug
    if wd.exists():
        shutil.rmtree(wd)
    wd.mkdir(parents=True)
    pipe = Pipe(wd, driver, names, use_real_update)
    packerplug._Mirror.FIRST = names.get("a", "a")
    events = []
    for st in hist:
        if st["op"] == "edit":
            materialise(pipe.src, st["dir"], names)
            events.append({"op": "edit", "pk": "", "dir": st["dir"], "ok": True, "unchanged": True, "exc": "", "probes": [],
                           "exists": False, "tree": [], "src": [], "by": "", "nfiles": -1, "haswrote": False, "wrote": [],
                           "filemeta": True, "note": ""})
            continue
        before = pipe.digests()
        ok, exc = True, ""
        del packerplug.PROBES[:]
        try:
            (pipe.pack if st["op"] == "pack" else pipe.update)({"pa": "vf.pa", "pb": "vf.pb"}[st["pk"]])
        except Exception as ex:
            ok, exc = False, f"{type(ex).__name__}: {str(ex)[:160]}"
            import gc
            gc.collect()
        after = pipe.digests()
        if not ok:
            # "no cleanup is done ... the user is responsible for removing inconsistent files that were created"
            for nm in set(after) - set(before):
                (wd / nm).unlink()
        ev = {"op": st["op"], "pk": st["pk"], "dir": [], "ok": ok, "exc": exc, "probes": sorted(set(packerplug.PROBES)),
              "unchanged": all(after.get(k) == v for k, v in before.items())}
        ev.update(pipe.observe())
        events.append(ev)
    shutil.rmtree(wd, ignore_errors=True)
    return events


def probe_glue(wd: Path) -> Dict[str, Any]:
    """Does PGPacker.pack / update as written get through a trivial life cycle?  (On the pinned tree it does not;
    DESIGN.md, observations.)  The answer decides only HOW the life cycle is driven, never the verdict."""
    from . import packerplug
    from metador_core.plugins import packers
    import h5py
    res = {"pack": "", "update": ""}
    d = wd / "probe"
    if d.exists():
        shutil.rmtree(d)
    (d / "src").mkdir(parents=True)
    (d / "src" / "a").write_bytes(b"x")
    packerplug._Mirror.FIRST = "a"
    try:
        packers.pack("vf.pa", d / "src", d / "c.h5", h5py.File)
        res["pack"] = "ok"
    except Exception as ex:
        res["pack"] = f"{type(ex).__name__}: {str(ex)[:120]}"
    import gc
    gc.collect()
    if res["pack"] != "ok":
        # the documented remedy of the error message; without it no container can be packed at all
        from metador_core.packer import PackerInfo
        from metador_core.plugins import schemas
        try:
            schemas["core.packerinfo"]          # (loaded first: with the reference resolved its own type check refuses it)
            PackerInfo.update_forward_refs()
            shutil.rmtree(d)
            (d / "src").mkdir(parents=True)
            (d / "src" / "a").write_bytes(b"x")
            packers.pack("vf.pa", d / "src", d / "c.h5", h5py.File)
            res["pack_after_update_forward_refs"] = "ok"
        except Exception as ex:
            res["pack_after_update_forward_refs"] = f"{type(ex).__name__}: {str(ex)[:120]}"
    try:
        packers.update("vf.pa", d / "src", d / "c.h5", h5py.File)
        res["update"] = "ok"
    except Exception as ex:
        res["update"] = f"{type(ex).__name__}: {str(ex)[:120]}"
    gc.collect()
    from metador_core.ih5.container import IH5MFRecord, IH5Record
    for nm, cls in (("ih5", IH5Record), ("mf", IH5MFRecord)):
        try:
            packers.pack("vf.pa", d / "src", d / f"rec{nm}", cls)
            res["pack_" + nm] = "ok"
        except Exception as ex:
            res["pack_" + nm] = f"{type(ex).__name__}: {str(ex)[:120]}"
        gc.collect()
    shutil.rmtree(d, ignore_errors=True)
    return res


# --------------------------------------------------------------------------------------
# the part of a check

def describe(e: Dict[str, Any]) -> str:
    return (f"{e['op']}({e['pk']}) ok={e['ok']} exc={e['exc'][:80]} tree={sorted('/'.join(x['p']) + ':' + x['k'] + x['v'] for x in e['tree'])} "
            f"recorded={sorted('/'.join(x['p']) + ':' + x['k'] + x['v'] for x in e['src'])} by={e['by']} containers={e['nfiles']} "
            f"wrote={['/'.join(w) for w in e['wrote']]} {e['note']}")


def model(rep, wd: Path, quick: bool) -> bool:
    """TLC on the life-cycle model: the state machine, every pair of snapshots, and the wrong packers it must reject."""
    from .common import cfg_text, run_tlc
    consts = {"Contents": {"h1"} if quick else {"h1", "h2"}, "Targets": {"t1"}, "Stride": 1, "Mutant": "none"}
    subst = ("CONSTANTS\n  Names1 <- N1\n  Names2 <- N2\n  Snapshots <- Trees\n  Names <- AllNames\n  Packers <- PackersDef\n"
             "  InvalidFor <- InvalidForDef\n")
    cfg = cfg_text("Spec", constants=consts, invariants=["ContainerMirrorsRecordedSource", "RecordedIsCurrent"],
                   properties=["RejectedChangesNothing", "WritesOnlyDiff", "WritesAllOfDiff"], view="View").replace("CONSTANTS\n", subst)
    r = run_tlc("MC_PackerPipeline", cfg, wd, timeout=3000, tag="_machine")
    rep.add_tlc("packer_lifecycle_model", r, names_depth1=["x", "y"], names_depth2=["x"], contents=sorted(consts["Contents"]),
                packers=["pa", "pb"], exhaustive=True)
    if r.violated:
        rep.violation(f"TLC: {r.violated} violated in the packer life-cycle model", {"tlc_out": r.out[-4000:]})
        return False
    if not r.ok or r.distinct < 1000:
        rep.machinery(f"TLC failed on PackerPipeline: {r.error or r.out[-600:]}")
        return False
    consts2 = dict(consts, Contents={"h1", "h2"})
    cfg2 = cfg_text("PairSpec", constants=consts2, invariants=["ContainerMirrorsRecordedSource", "RecordedIsCurrent"],
                    properties=["WritesOnlyDiff", "WritesAllOfDiff"]).replace("CONSTANTS\n", subst if quick else subst.replace("N2\n", "N2big\n"))
    r = run_tlc("MC_PackerPipeline", cfg2, wd, timeout=3000, tag="_pairs")
    rep.add_tlc("packer_update_all_pairs", r, names_depth2=["x"] if quick else ["x", "y"], exhaustive=True)
    if r.violated:
        rep.violation(f"TLC: {r.violated} violated for some pair of snapshots (packer update)", {"tlc_out": r.out[-4000:]})
        return False
    if not r.ok:
        rep.machinery(f"TLC failed on PackerPipeline pairs: {r.error or r.out[-600:]}")
        return False
    killed = {}
    for mu in ("symlink_deleted", "reversed_order", "parents_first"):
        cfgm = cfg_text("PairSpec", constants=dict(consts2, Mutant=mu), invariants=["ContainerMirrorsRecordedSource"]).replace("CONSTANTS\n", subst)
        rm = run_tlc("MC_PackerPipeline", cfgm, wd, timeout=1200, tag="_mut_" + mu)
        killed[mu] = rm.violated or ""
        if not rm.violated:
            rep.machinery(f"packer mutant {mu} not rejected by the model")
    rep.parts["packer_mutants_killed"] = killed
    return True


def conformance(rep, wd: Path, quick: bool, rng: random.Random, pairs: Optional[List[Dict[str, Any]]] = None):
    from . import packerplug
    packerplug.register()
    glue = probe_glue(wd)
    rep.parts["pgpacker_glue_as_written"] = glue
    if glue["pack"] != "ok" and glue.get("pack_after_update_forward_refs") != "ok":
        rep.parts["packer_lifecycle_conformance"] = {"skipped": "no container can be packed through the plugin group: " + json.dumps(glue)[:300]}
        return
    real_update = glue["update"] == "ok"
    from metador_core.plugins import packers as _pk
    from metador_core import packer as _pmod
    if not real_update and not (all(hasattr(_pk, n_) for n_ in ("_prepare", "_finalize", "_PACKER_INFO_NAME", "resolve"))
                                and hasattr(_pmod, "Unclosable")):
        # neither the public update nor the pieces it is made of (as named at the pinned commit) can be used
        rep.parts["packer_lifecycle_conformance"] = {"skipped": "PGPacker.update unusable and its steps not found under their pinned names"}
        return
    drivers = ["h5"] + [d_ for d_ in ("ih5", "mf") if glue.get("pack_" + d_) == "ok"]
    hists = []
    n = 36 if quick else 200
    for k in range(n):
        hists.append(gen_history(rng, rng.randint(5, 9)))
    # the model's snapshot pairs as pack -> edit -> update -> update histories (tokens and names of this harness)
    for c in (pairs or []):
        ren = {"x": "a", "y": "b"}
        def conv(t):
            return [{"p": [ren[s] for s in e["p"]], "k": e["k"], "v": {"h1": "h1", "h2": "h3", "t1": "t1"}.get(e["v"], e["v"])} for e in t]
        hists.append(pair_history(conv(c["a"]), conv(c["b"]), "pa"))
    traces, meta = [], []
    for k, h in enumerate(hists):
        drv = drivers[(k + 1) % len(drivers)]
        names = NAME_MAPS[k % len(NAME_MAPS)]
        traces.append(run_history(wd / "run", drv, names, h, real_update))
        meta.append((drv, names))
    verd = common.validate_traces("Trace_Packer", traces, wd, chunk=40)
    st = common.validate_traces.last_stats
    rep.states += st["states"]; rep.transitions += st["transitions"]
    calls = sum(1 for t in traces for e in t if e["op"] != "edit")
    okcalls = sum(1 for t in traces for e in t if e["op"] != "edit" and e["ok"])
    upd = sum(1 for t in traces for e in t if e["op"] == "update" and e["ok"])
    rep.traces += len(traces)
    rep.evaluations += calls
    rep.parts["packer_lifecycle_conformance"] = {"histories": len(traces), "calls": calls, "carried_out": okcalls, "updates_carried_out": upd,
                                                 "refused": calls - okcalls, "drivers": drivers,
                                                 "contract_guard_attempts_from_inside_packers": packerplug.ATTEMPTS[0],
                                                 "update_driven_by": "PGPacker.update" if real_update else "harness glue around Packer.update (PGPacker.update unusable as written)"}
    for (drv, names), t, v in zip(meta, traces, verd):
        for step, clause in v:
            e = t[step - 1]
            prev_dir = next((x["dir"] for x in reversed(t[: step - 1]) if x["op"] == "edit"), [])
            rep.violation(f"packer life cycle on {drv} (names {names or 'abstract'}) step {step}: {describe(e)} fails {clause}; "
                          f"directory={sorted('/'.join(x['p']) + ':' + x['k'] + x['v'] for x in prev_dir)}",
                          {"driver": drv, "names": names, "history": t, "step": step, "clause": clause})
        for j, e in enumerate(t):
            if e["op"] == "update" and e["ok"]:
                rep.nontrivial.add(("packer", drv, json.dumps([x for x in t[: j + 1] if x["op"] == "edit"][-1]["dir"], sort_keys=True)))
    if upd < 10:
        rep.machinery(f"vacuous packer life-cycle conformance: only {upd} updates carried out")
    # binding self-test: a container that kept a removed file, a stale recorded snapshot and a write outside the diff
    import copy
    muts = []
    for t in traces:
        idx = [j for j, e in enumerate(t) if e["op"] == "update" and e["ok"] and e["tree"] and len(e["tree"]) > 1]
        if not idx:
            continue
        j = idx[0]
        m1 = copy.deepcopy(t); m1[j]["tree"] = m1[j]["tree"][:-1]; muts.append(m1)
        m2 = copy.deepcopy(t); m2[j]["src"] = m2[j]["src"] + [{"p": ["zz"], "k": "f", "v": "h1"}]; muts.append(m2)
        m4 = copy.deepcopy(t); m4[j]["probes"] = ["close"]; muts.append(m4)
        if t[j]["haswrote"]:
            m3 = copy.deepcopy(t); m3[j]["wrote"] = m3[j]["wrote"] + [["zz", "q"]]; muts.append(m3)
        if len(muts) >= 12:
            break
    if muts:
        vm = common.validate_traces("Trace_Packer", muts, wd, tag="_selftest")
        missed = sum(1 for v in vm if not v)
        rep.parts["packer_binding_selftest"] = {"corrupted": len(muts), "rejected": len(muts) - missed}
        if missed:
            rep.machinery(f"packer binding self-test: {missed} corrupted histories accepted")
