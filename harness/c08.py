"""C08 — the reserved metador_* namespace is invisible and untouchable for users."""
from . import contcommon as CC


def extra(rep, wd, quick, seed, rng):
    # the complete catalogue: every path-taking method x reserved path shapes x drivers, and every
    # attribute of the raw group/file objects that the interface does not define
    js = [{"tid": 9000 + k, "seed": seed + 99 + k, "nops": 8, "stage": 1, "catalogue": True, "nq": 0, "concrete": False}
          for k in range(1 if quick else 4)]
    good, verd = CC.run_container(rep, wd, "C08", js, label="method_catalogue",
                                  clauses=CC.CLAUSES["C08"] | {"unsupported_not_passed_through", "ok_matches_reference"})
    methods = sorted({e["a"]["method"] for j, t in good for e in t if e["op"] in ("reserved", "passthrough")})
    rep.parts["method_catalogue"]["probed"] = len(methods)
    rep.parts["method_catalogue"]["methods"] = methods[:60]
    if len(methods) < 20:
        rep.machinery(f"method catalogue suspiciously small: {methods}")


def run(tier: str) -> int:
    CC.CLAUSES["C08"] = CC.CLAUSES["C08"] | {"unsupported_not_passed_through"}
    return CC.standard_run(
        "C08", tier,
        rule=("container histories mixing data and metadata operations on three drivers: the user-visible projection through "
              "every listing primitive (keys, iteration, len, in, values, items, visit, visititems) must equal the plain tree "
              "that H5Tree!Apply yields for the user operations; reserved-path calls on a catalogue of path-taking methods "
              "derived from the H5GroupLike protocol and dir(MetadorGroup) x 9 reserved path shapes, and every raw attribute "
              "the interface does not define, must be refused with the raw state unchanged"),
        assumptions=["a method counts as path-taking if a positional parameter is called name/path/source/dest/key"],
        extra=extra)
