"""C18 — directory diffs are exact and safely ordered."""
from __future__ import annotations

import json
import random
from pathlib import Path
from typing import Any, Dict, List

from . import common, compat
from .common import Report, cfg_text, run_tlc

CONTENT = {"h1": "sha256:" + "a" * 64, "h2": "sha256:" + "b" * 64, "h3": "sha256:" + "0" * 64}
TARGET = {"t1": "symlink:x/other", "t2": "symlink:elsewhere"}


def to_hashsums(tree: List[Dict[str, Any]], names: Dict[str, str]) -> Dict[str, Any]:
    root: Dict[str, Any] = {}
    for e in sorted(tree, key=lambda x: len(x["p"])):
        if not e["p"]:
            continue
        d = root
        for seg in e["p"][:-1]:
            d = d[names.get(seg, seg)]
        key = names.get(e["p"][-1], e["p"][-1])
        d[key] = {} if e["k"] == "d" else (CONTENT[e["v"]] if e["k"] == "f" else TARGET[e["v"]])
    return root


def entry(x, rnames) -> Dict[str, str]:
    if x is None:
        return {"k": "none", "v": ""}
    if isinstance(x, dict):
        return {"k": "d", "v": ""}
    for t, c in TARGET.items():
        if x == c:
            return {"k": "s", "v": t}
    for t, c in CONTENT.items():
        if x == c:
            return {"k": "f", "v": t}
    return {"k": "?", "v": str(x)[:30]}


def run_case(a, b, names, rng, annotate_dir=None) -> Dict[str, Any]:
    from metador_core.util.diff import DirDiff
    rn = {v: k for k, v in names.items()}
    ha, hb = to_hashsums(a, names), to_hashsums(b, names)
    ca, cb = json.dumps(ha, sort_keys=True), json.dumps(hb, sort_keys=True)
    d = DirDiff.compare(ha, hb)
    nodes = []
    if not d.is_empty:
        for n in d._diff_root.nodes() if hasattr(d, "_diff_root") else []:
            p = [rn.get(s, s) for s in Path(n.path).parts]
            nodes.append({"p": p, "st": d.status(n).value, "prev": entry(n.prev, rn), "curr": entry(n.curr, rn)})
    paths = {tuple(e["p"]) for e in a} | {tuple(e["p"]) for e in b}
    paths |= {("zz",), ("x", "zz")}
    gets = []
    for p in sorted(paths):
        if not p:
            continue
        g = d.get(Path(*[names.get(s, s) for s in p]))
        gets.append({"p": list(p), "found": g is not None, "st": d.status(g).value if g is not None else "0"})
    mutated = json.dumps(ha, sort_keys=True) != ca or json.dumps(hb, sort_keys=True) != cb
    ev = {"a": a, "b": b, "nodes": nodes, "is_empty": bool(d.is_empty), "gets": gets, "mutated": mutated,
          "hasann": False, "ann": []}
    if annotate_dir is not None:
        # materialise the new snapshot and annotate it
        import os, shutil
        base = Path(annotate_dir)
        if base.exists():
            shutil.rmtree(base)
        base.mkdir(parents=True)
        for e in sorted(b, key=lambda x: len(x["p"])):
            if not e["p"]:
                continue
            p = base.joinpath(*[names.get(s, s) for s in e["p"]])
            if e["k"] == "d":
                p.mkdir()
            elif e["k"] == "f":
                p.write_bytes(e["v"].encode())
            else:
                os.symlink("nowhere", p)
        ann = d.annotate(base)
        ev["hasann"] = True
        ev["ann"] = [{"p": [rn.get(s, s) for s in Path(k).relative_to(base).parts], "node": v is not None} for k, v in ann.items()]
        ev["ann"] = [x for x in ev["ann"] if x["p"]] if not any(n["p"] == [] for n in nodes) else ev["ann"]
        shutil.rmtree(base)
    return ev


def random_tree(rng: random.Random, keys: List[str], depth: int) -> List[Dict[str, Any]]:
    out = [{"p": [], "k": "d", "v": ""}]

    def fill(p, d):
        for k in keys:
            r = rng.random()
            if r < 0.35:
                continue
            if r < 0.6:
                out.append({"p": p + [k], "k": "f", "v": rng.choice(list(CONTENT))})
            elif r < 0.7:
                out.append({"p": p + [k], "k": "s", "v": rng.choice(list(TARGET))})
            else:
                out.append({"p": p + [k], "k": "d", "v": ""})
                if d < depth:
                    fill(p + [k], d + 1)
    fill([], 1)
    return out


def mutate_tree(rng, t, keys, depth):
    """A second snapshot related to the first one (a few edits), so that unchanged parts exist."""
    t2 = [dict(e) for e in t]
    for _ in range(rng.randint(0, 4)):
        r = rng.random()
        non_root = [e for e in t2 if e["p"]]
        if r < 0.3 and non_root:
            v = rng.choice(non_root)
            t2 = [e for e in t2 if e["p"][: len(v["p"])] != v["p"]]
        elif r < 0.6 and non_root:
            v = rng.choice(non_root)
            t2 = [e for e in t2 if e["p"][: len(v["p"])] != v["p"]]
            kind = rng.choice(["f", "s", "d"])
            t2.append({"p": v["p"], "k": kind, "v": "" if kind == "d" else rng.choice(list(CONTENT if kind == "f" else TARGET))})
        else:
            dirs = [e for e in t2 if e["k"] == "d" and len(e["p"]) < depth]
            d = rng.choice(dirs)
            k = rng.choice(keys)
            if not any(e["p"] == d["p"] + [k] for e in t2):
                kind = rng.choice(["f", "d"])
                t2.append({"p": d["p"] + [k], "k": kind, "v": "" if kind == "d" else rng.choice(list(CONTENT))})
    return t2


def run(tier: str) -> int:
    rep = Report("C18", tier)
    quick = tier == "quick"
    seed = common.seed()
    rng = random.Random(seed)
    rep.assumptions += [compat.ASSUMPTION, "snapshots are DirHashsums dicts (files = qualified hashsum strings, symlinks = "
                                           "'symlink:<target>', directories = dicts)"]
    rep.rule = ("TLC checks for every pair of snapshots over names {x,y} / {x} (depth 2, two file contents, one symlink target, "
                "empty directories) that the documented order is complete and safe for the applier machine and exports all pairs; "
                "every pair (plus random larger pairs) is compared with the real DirDiff and the result (node list in real order, "
                "is_empty, get lookups) is judged by TLC: reported set exact, empty iff equal, real order safe, get agrees; "
                "distinct = distinct pairs; non-trivial = pairs with a difference")
    wd = common.workdir("C18")
    try:
        out = wd / "cases.json"
        cfg = cfg_text("Spec", constants={"Contents": {"h1", "h2"}, "Targets": {"t1"}, "Stride": 1 if quick else 17},
                       invariants=["TreesWellFormed", "EmptyIffEqual", "RootReported", "OrderComplete", "OrderSafe"],
                       postcondition="Export").replace("CONSTANTS\n", "CONSTANTS\n  Names1 <- N1\n  Names2 <- " + ("N2" if quick else "N2big") + "\n")
        r = run_tlc("MC_DirDiff", cfg, wd, env={"OUT_FILE": str(out)}, timeout=3000)
        rep.add_tlc("diff_order_model", r, names_depth1=["x", "y"], names_depth2=["x"] if quick else ["x", "y"], exhaustive=True)
        if r.violated:
            rep.violation(f"TLC: {r.violated} violated in the DirDiff model", {"tlc_out": r.out[-4000:]})
        elif not r.ok or not out.exists():
            rep.machinery(f"TLC failed on DirDiff: {r.error or r.out[-600:]}")
            return rep.finish()
        cases = json.loads(out.read_text())
        # concrete names: per case from families that stress sorting and prefix handling ('.' and ' ' sort before '/',
        # one name a prefix of the other, case, leading dot, non-ASCII, digits of different length)
        NAME_MAPS = [{"x": "alpha", "y": "beta.txt"}, {"x": "a", "y": "a.b"}, {"x": "a", "y": "a b"}, {"x": "run1", "y": "run10"},
                     {"x": "A", "y": "a"}, {"x": ".hidden", "y": "visible"}, {"x": "ä", "y": "z"}, {"x": "a-b", "y": "a"},
                     {"x": "10", "y": "9"}, {"x": "a+", "y": "a"}]
        events = [run_case(c["a"], c["b"], NAME_MAPS[j % len(NAME_MAPS)], rng) for j, c in enumerate(cases)]
        rep.parts["exhaustive_pairs"] = {"pairs": len(events)}
        # random larger trees (4 keys, depth 3), related and unrelated pairs
        keys = ["a", "b", "c", "d"]
        n_rand = 400 if quick else 20000
        for k in range(n_rand):
            t1 = random_tree(rng, keys, 3)
            t2 = mutate_tree(rng, t1, keys, 3) if k % 3 else random_tree(rng, keys, 3)
            rmap = {} if k % 2 else dict(zip(keys, rng.sample(["a", "a.b", "a b", "ab", "a-", "A", ".a", "ä", "10", "9", "b", "a+"], 4)))
            events.append(run_case(t1, t2, rmap, rng, annotate_dir=(wd / "ann") if k % (3 if quick else 5) == 0 else None))
        rep.parts["random_pairs"] = {"pairs": n_rand, "keys": keys, "depth": 3}
        for e in events:
            if e["mutated"]:
                rep.violation("DirDiff.compare mutated its arguments", {"a": e["a"], "b": e["b"]})
        chunk = 250
        traces = [events[j: j + chunk] for j in range(0, len(events), chunk)]
        verd = common.validate_traces("Trace_DirDiff", traces, wd, chunk=8)
        st = common.validate_traces.last_stats
        rep.states += st["states"]; rep.transitions += st["transitions"]
        rep.traces += len(events)
        rep.evaluations += len(events)
        for t, v in zip(traces, verd):
            for step, clause in v:
                e = t[step - 1]
                rep.violation(f"DirDiff of {sorted('/'.join(x['p']) + ':' + x['k'] + x['v'] for x in e['a'])} -> "
                              f"{sorted('/'.join(x['p']) + ':' + x['k'] + x['v'] for x in e['b'])} fails {clause}: "
                              f"nodes={[('/'.join(n['p']), n['st']) for n in e['nodes']]}", {"event": e, "clause": clause})
        for e in events:
            if e["nodes"]:
                rep.nontrivial.add(json.dumps([e["a"], e["b"]], sort_keys=True))
        e = events[len(cases) // 2]
        rep.sample({"a": ["/".join(x["p"]) + ":" + x["k"] + x["v"] for x in e["a"]],
                    "b": ["/".join(x["p"]) + ":" + x["k"] + x["v"] for x in e["b"]],
                    "nodes_in_order": [["/".join(n["p"]), n["st"]] for n in e["nodes"]]})
        # the consumer the ordering exists for: the packer life cycle on real containers (spec/PackerPipeline.tla)
        from . import packerpipe as PP
        rep.rule += ("; the packer life cycle (pack / update of a mirror packer written like packer/example.py, through the packer "
                     "plugin group, on h5py.File and IH5Record) is model-checked (PackerPipeline.tla: node-wise treatment of the diff in "
                     "the documented order reproduces the mirror of the new directory for every pair of snapshots, writes only and all "
                     "of the diff) and validated on real containers (Trace_Packer.tla)")
        if PP.model(rep, wd, quick):
            step_ = max(1, len(cases) // (150 if quick else 450))
            PP.conformance(rep, wd, quick, rng, pairs=[c for j, c in enumerate(cases) if j % step_ == 0 and c["a"] != c["b"]])
        # binding self-test: a reordered / truncated node list must be rejected
        import copy
        def removed_dir_with_children(e):
            return any(n["st"] == "-" and n["prev"]["k"] == "d" and
                       any(m["p"][: len(n["p"])] == n["p"] and len(m["p"]) > len(n["p"]) for m in e["nodes"])
                       for n in e["nodes"])
        cands = [e for e in events if removed_dir_with_children(e)][:6]
        muts = []
        for e in cands:
            m = copy.deepcopy(e)
            m["nodes"].reverse()
            muts.append([m])
            m2 = copy.deepcopy(e)
            m2["nodes"].pop()
            muts.append([m2])
        if muts:
            vm = common.validate_traces("Trace_DirDiff", muts, wd, tag="_selftest")
            missed = sum(1 for v in vm if not v)
            rep.parts["binding_selftest"] = {"corrupted": len(muts), "rejected": len(muts) - missed}
            if missed:
                rep.machinery(f"binding self-test: {missed} corrupted diffs accepted")
    except common.MachineryError as e:
        rep.machinery(str(e)[:2500])
    finally:
        common.cleanup(wd)
    return rep.finish()
