"""Shared parts of the record-protocol checks (C02, C03, C04, C05, C10, C11)."""
from __future__ import annotations

import concurrent.futures as cf
import copy
import random
from pathlib import Path
from typing import Any, Dict, List, Optional

from . import common, h5run
from .common import Report, cfg_text, run_tlc
from .protoworker import SITUATIONS, situation_script

RECORD_INVS = ["RecordsValid", "CommittedSubsetValid", "NeverCleanUnwritten", "OpenIffValid"]
RECORD_MUTANTS = {
    "skip_newest_hash_match": "mf", "prev_by_index_only": "ih5", "no_uuid_distinct": "ih5",
    "manifest_unchecked": "mf", "manifest_of_newest_only": "mf", "hash_before_close": "ih5",
}


def record_cfg(cls: str, maxtok: int, mutant: str = "none", invs=None, props=("FrozenStay",)) -> str:
    return cfg_text("Spec", constants={"Names": {"A", "B"}, "Cls": cls, "MaxTok": maxtok, "MaxPatches": 2,
                                       "Mutant": mutant},
                    constraint="Bound", invariants=invs if invs is not None else RECORD_INVS,
                    properties=list(props))


def record_model(rep: Report, wd: Path, maxtok: int, classes=("ih5", "mf"), invs=None, props=("FrozenStay",),
                 workers: int = common.NCPU, label: str = "record_protocol_model"):
    """Exhaustive TLC run of the file-set protocol machine (all open modes, commit sub-steps
    with crashes, record copies/forks, the corruption adversary) for both classes."""
    for cls in classes:
        r = run_tlc("MC_IH5Record", record_cfg(cls, maxtok, invs=invs, props=props), wd, workers=workers,
                    tag=f"_{label}_{cls}", timeout=3000)
        rep.add_tlc(f"{label}_{cls}", r, names=["A", "B"], max_tokens=maxtok, max_patch_index=2, exhaustive=True,
                    invariants=list(invs if invs is not None else RECORD_INVS) + list(props))
        if r.violated:
            rep.violation(f"TLC: {r.violated} violated in the record protocol model ({cls}): "
                          + " | ".join(r.behaviour[-10:]), {"tlc_out": r.out[-6000:]})
        elif not r.ok:
            rep.machinery(f"TLC failed on record model {cls}: {r.error or r.out[-600:]}")
        elif r.distinct < 1000:
            rep.machinery(f"vacuous record model run ({cls}): only {r.distinct} states")


def record_mutants(rep: Report, wd: Path, which: List[str], maxtok: int = 7):
    """Wrong rules of the open checks / commit order must be caught by the model invariants."""
    def one(mu):
        cls = RECORD_MUTANTS[mu]
        return mu, run_tlc("MC_IH5Record", record_cfg(cls, maxtok, mutant=mu, props=()), wd,
                           workers=max(2, common.NCPU // len(which)), tag=f"_mut_{mu}", timeout=1200)
    killed = {}
    with cf.ThreadPoolExecutor(max_workers=len(which)) as ex:
        for mu, r in ex.map(one, which):
            killed[mu] = r.violated or ""
            rep.states += r.distinct
            rep.transitions += r.generated
            if not r.violated:
                rep.machinery(f"protocol mutant '{mu}' not detected by the model (vacuous invariants?)")
    rep.parts["protocol_mutants_killed"] = killed


# --------------------------------------------------------------------------------------
# jobs

MODES = ["r", "r+", "a", "w", "x", "w-"]


def matrix_jobs(seed: int, start: int = 0, namesets=(0, 1, 2, 3), classes=("ih5", "mf")) -> List[Dict[str, Any]]:
    """All on-disk situations x all open modes x {by name, by permuted file list}, each in a
    directory shared with prefix-related neighbour records; then use the handle and reopen."""
    jobs = []
    tid = start
    for cls in classes:
        for ns in namesets:
            for sit in SITUATIONS:
                for mode in MODES:
                    for bylist in (False, True):
                        tid += 1
                        sc = situation_script(sit, "$main")
                        sc.append({"op": "open", "mode": mode, "rname": "$main", "bylist": bylist})
                        if bylist:      # a merge right after opening, in every situation and mode
                            sc.append({"op": "merge", "target": "merged1"})
                        sc += [{"op": "write"}, {"op": "commit"}, {"op": "discard"}, {"op": "close", "commit": True},
                               {"op": "open", "mode": "r", "rname": "$main", "bylist": not bylist},
                               {"op": "close", "commit": True}]
                        jobs.append({"tid": tid, "cls": cls, "seed": seed + tid, "nameset": ns, "script": sc,
                                     "label": f"{sit}/{mode}/{'list' if bylist else 'name'}"})
    return jobs


def many_patches_jobs(seed: int, start: int = 0, classes=("ih5", "mf"), npatches: int = 11) -> List[Dict[str, Any]]:
    """A record that accumulates more than nine patches (two-digit patch indices in file names and user blocks),
    reopened by name and by list, patched further, merged."""
    jobs = []
    for k, cls in enumerate(classes):
        sc: List[Dict[str, Any]] = [{"op": "open", "mode": "w", "rname": "$main", "bylist": False}, {"op": "write"}, {"op": "commit"}]
        for _ in range(npatches):
            sc += [{"op": "create_patch"}, {"op": "write"}, {"op": "commit"}]
        sc += [{"op": "close", "commit": True},
               {"op": "open", "mode": "r", "rname": "$main", "bylist": False}, {"op": "close", "commit": True},
               {"op": "open", "mode": "r+", "rname": "$main", "bylist": k % 2 == 1}, {"op": "write"}, {"op": "close", "commit": True},
               {"op": "open", "mode": "a", "rname": "$main", "bylist": False}, {"op": "discard"}, {"op": "merge", "target": "merged1"},
               {"op": "close", "commit": True}, {"op": "list_records"},
               {"op": "open", "mode": "r", "rname": "$main", "bylist": True}, {"op": "close", "commit": True}]
        jobs.append({"tid": start + k + 1, "cls": cls, "seed": seed + k, "nameset": k, "script": sc, "label": "many_patches"})
    return jobs


def close_variant_jobs(seed: int, start: int = 0, classes=("ih5", "mf")) -> List[Dict[str, Any]]:
    """Every way of letting go of a writable handle (close, close without commit, leaving a `with` block normally or
    by an exception), right after a commit and with a patch in progress, on records with one to three containers;
    afterwards the record is opened again by name and by list."""
    jobs = []
    tid = start
    ways = [{"commit": True}, {"commit": False}, {"commit": True, "how": "exit"}, {"commit": True, "how": "exit_exc"}]
    for cls in classes:
        for npatch in (0, 1, 2):
            for inprogress in (False, True):
                for w in ways:
                    tid += 1
                    sc: List[Dict[str, Any]] = [{"op": "open", "mode": "w", "rname": "$main", "bylist": False}, {"op": "write"}, {"op": "commit"}]
                    for _ in range(npatch):
                        sc += [{"op": "create_patch"}, {"op": "write"}, {"op": "commit"}]
                    if inprogress:
                        sc += [{"op": "create_patch"}, {"op": "write"}]
                    sc += [dict(w, op="close"),
                           {"op": "open", "mode": "r", "rname": "$main", "bylist": False}, {"op": "close", "commit": True},
                           {"op": "open", "mode": "r+", "rname": "$main", "bylist": True}, {"op": "write"}, dict(w, op="close"),
                           {"op": "open", "mode": "a", "rname": "$main", "bylist": False}, {"op": "close", "commit": True},
                           {"op": "open", "mode": "r", "rname": "$main", "bylist": True}, {"op": "close", "commit": True}]
                    jobs.append({"tid": tid, "cls": cls, "seed": seed + tid, "nameset": tid % 4, "script": sc,
                                 "label": f"close_variant/{npatch}/{inprogress}/{w.get('how', 'close')}/{w['commit']}"})
    return jobs


def cross_class_jobs(seed: int, start: int = 0) -> List[Dict[str, Any]]:
    """Records written through one class and read, merged and patched further through the other one (IH5MFRecord opens
    records without manifest extension; IH5Record ignores the extension)."""
    jobs = []
    tid = start
    for creator, other in (("ih5", "mf"), ("mf", "ih5")):
        for npatch in (0, 1, 3):
            for variant in (0, 1):
                tid += 1
                sc: List[Dict[str, Any]] = [{"op": "open", "mode": "w", "rname": "$main", "bylist": False}, {"op": "write"}, {"op": "commit"}]
                for _ in range(npatch):
                    sc += [{"op": "create_patch"}, {"op": "write"}, {"op": "write"}, {"op": "commit"}]
                sc += [{"op": "close", "commit": True},
                       {"op": "open", "mode": "r", "rname": "$main", "bylist": variant == 1, "as": other},
                       {"op": "merge", "target": "merged1"}, {"op": "close", "commit": True},
                       {"op": "open", "mode": "r", "rname": "merged1", "bylist": False}, {"op": "close", "commit": True},
                       {"op": "open", "mode": "r", "rname": "merged1", "bylist": False, "as": other}, {"op": "close", "commit": True}]
                if variant == 1:
                    sc += [{"op": "open", "mode": "r+", "rname": "$main", "bylist": False, "as": other}, {"op": "write"},
                           {"op": "close", "commit": True},
                           {"op": "open", "mode": "r", "rname": "$main", "bylist": False}, {"op": "merge", "target": "merged2"},
                           {"op": "close", "commit": True},
                           {"op": "open", "mode": "r", "rname": "$main", "bylist": True, "as": other}, {"op": "close", "commit": True},
                           {"op": "open", "mode": "r", "rname": "merged2", "bylist": False, "as": other}, {"op": "close", "commit": True}]
                jobs.append({"tid": tid, "cls": creator, "seed": seed + tid, "nameset": tid % 4, "script": sc,
                             "label": f"cross_class/{creator}/{npatch}/{variant}"})
    return jobs


def random_proto_jobs(n: int, nops: int, seed: int, start: int = 0, classes=("ih5", "mf")) -> List[Dict[str, Any]]:
    jobs = []
    tid = start
    for cls in classes:
        for s in range(n):
            tid += 1
            jobs.append({"tid": tid, "cls": cls, "seed": seed * 7919 + tid, "nops": nops, "nameset": s})
    return jobs


def merge_jobs(n: int, seed: int, start: int = 0, classes=("ih5", "mf")) -> List[Dict[str, Any]]:
    """Records with several patches, merged at various points, then patched further."""
    rng = random.Random(seed)
    jobs = []
    tid = start
    for cls in classes:
        for s in range(n):
            tid += 1
            sc: List[Dict[str, Any]] = [{"op": "open", "mode": "w", "rname": "$main", "bylist": False}]
            for _ in range(rng.randint(1, 3)):
                sc.append({"op": "write"})
            sc.append({"op": "commit"})
            for _ in range(rng.randint(0, 3)):
                sc += [{"op": "create_patch"}] + [{"op": "write"}] * rng.randint(1, 3) + [{"op": "commit"}]
            if rng.random() < 0.3:   # merge must be refused while a patch is open
                sc += [{"op": "create_patch"}, {"op": "write"}, {"op": "merge", "target": "merged2"}, {"op": "commit"}]
            sc.append({"op": "merge", "target": "merged1"})
            if rng.random() < 0.5:
                sc += [{"op": "close", "commit": True},
                       {"op": "open", "mode": rng.choice(["r+", "a"]), "rname": "$main", "bylist": rng.random() < 0.5,
                        "mfalt": rng.random() < 0.5}]   # manifest-carrying records: the manifest is given explicitly
                if rng.random() < 0.5:   # merge right after reopening (the newest manifest may live elsewhere)
                    sc += [{"op": "discard"}, {"op": "merge", "target": "other"}, {"op": "create_patch"}]
            else:
                sc.append({"op": "create_patch"})
            for _ in range(rng.randint(1, 3)):
                sc += [{"op": "write"}] * rng.randint(1, 3) + [{"op": "commit"}, {"op": "create_patch"}]
            sc += [{"op": "discard"}, {"op": "merge", "target": "merged2"}, {"op": "close", "commit": True},
                   {"op": "open", "mode": "r", "rname": "$main", "bylist": True},
                   {"op": "close", "commit": True},
                   {"op": "open", "mode": "r", "rname": "merged1", "bylist": False},
                   {"op": "close", "commit": True}]
            jobs.append({"tid": tid, "cls": cls, "seed": seed + tid, "nameset": s, "script": sc})
    return jobs


def probe_jobs(kind: str, n: int, seed: int, start: int = 0, classes=("ih5", "mf"), **kw) -> List[Dict[str, Any]]:
    jobs = []
    tid = start
    for cls in classes:
        for s in range(n):
            tid += 1
            jobs.append({"tid": tid, "kind": kind, "cls": cls, "seed": seed * 31 + tid, **kw,
                         **({"uncommitted_tail": s % 3 == 2, "npatches": 1 + s % 3, "big": s % 3 == 1} if kind == "corruption" else {})})
    return jobs


# --------------------------------------------------------------------------------------


def run_validate(rep: Report, wd: Path, jobs: List[Dict[str, Any]], label: str, worker: str,
                 only: Optional[set] = None, stall: float = 40.0, describe=None):
    """Run jobs, validate with Trace_IH5Record, keep the violations whose clause is in `only`
    (None = all clauses).  Returns (jobs+traces, verdicts)."""
    traces, meta = h5run.run_histories(jobs, wd, module=worker, stall=stall)
    if meta["crashes"]:
        t, tb = next(iter(meta["crashes"].items()))
        rep.machinery(f"{label}: {len(meta['crashes'])} worker crashes, e.g. tid {t}: {tb[-700:]}")
    good = [(j, t) for j, t in zip(jobs, traces) if t]
    verdicts = common.validate_traces("Trace_IH5Record", [t for _, t in good], wd, tag="_" + label)
    st = common.validate_traces.last_stats  # type: ignore
    rep.states += st["states"]
    rep.transitions += st["transitions"]
    rep.traces += len(good)
    nev = sum(len(t) - 1 for _, t in good)
    rep.evaluations += nev
    rejected = 0
    other = 0
    for (j, t), v in zip(good, verdicts):
        sig = repr([(e["op"], e.get("what", ""), e["a"].get("mode", ""), e["ok"]) for e in t])
        if len(t) > 2:
            rep.nontrivial.add(sig if len(sig) < 4000 else hash(sig))
        mine = [x for x in v if only is None or x[1] in only]
        other += len(v) - len(mine)
        if mine:
            rejected += 1
            step = min(s for s, _ in mine)
            e = t[step - 1]
            d = describe(e) if describe else (f"op={e['op']} {e.get('what','')} mode={e['a'].get('mode','')} "
                                               f"rname={e['a'].get('rname','')} ok={e['ok']} exc={e.get('exc','')[:80]}")
            rep.violation(f"{label}: cls={j['cls']} step {step} {d} fails {sorted({c for _, c in mine})}",
                          {"job": {k: j[k] for k in j if k != 'script'}, "script": j.get("script"),
                           "failing": mine, "event": {k: e[k] for k in e if k not in ("disk", "mfd")},
                           "disk": e["disk"], "mfd": e["mfd"],
                           "previous": {k: t[step - 2][k] for k in ("disk", "mfd", "h")} if step >= 2 else None})
    rep.parts[label] = {"histories": len(good), "events": nev, "rejected": rejected, "hangs": len(meta["hangs"]),
                        "clauses_of_other_properties_failing": other}
    return good, verdicts


def proto_selftest(rep: Report, wd: Path, accepted: List[List[Any]], rng: random.Random, n: int = 8):
    """Corrupt one logged fact of accepted protocol traces: TLC must reject every one."""
    cands = [t for t in accepted if len(t) > 4]
    if not cands:
        rep.machinery("protocol binding self-test: nothing to corrupt")
        return
    muts, kinds = [], []
    for k in range(n):
        t = copy.deepcopy(rng.choice(cands))
        kind = ["flip_ok", "change_committed_bytes", "drop_file", "change_handle"][k % 4]
        idx = [i for i in range(1, len(t)) if t[i]["op"] in ("open", "commit", "create_patch", "close", "write")]
        if not idx:
            continue
        i = rng.choice(idx)
        e = t[i]
        if kind == "flip_ok":
            e["ok"] = not e["ok"]
        elif kind == "change_committed_bytes":
            cs = [c for c in e["disk"] if c["hash"]]
            if not cs:
                continue
            c = rng.choice(cs)
            c["fd"] = "0" * 24
            c["pd"] = "sha256:" + "0" * 64
        elif kind == "drop_file":
            if not e["disk"]:
                continue
            e["disk"].pop(rng.randrange(len(e["disk"])))
        else:
            e["h"]["rw"] = not e["h"]["rw"]
        muts.append(t)
        kinds.append(kind)
    verdicts = common.validate_traces("Trace_IH5Record", muts, wd, tag="_selftest")
    missed = [k for k, v in zip(kinds, verdicts) if not v]
    rep.parts["binding_selftest"] = {"corrupted_traces": len(muts), "rejected": len(muts) - len(missed)}
    if missed:
        rep.machinery(f"protocol binding self-test: corrupted traces accepted ({missed})")
