"""Worker process: executes histories on a driver and logs one event per public call.

Usage: python -m harness.h5worker <jobs.json> <out.jsonl>

Protocol on <out.jsonl> (one JSON object per line, flushed):
  {"t":"begin","tid":T,"i":I,"e":{op...}}   before a call
  {"t":"end","tid":T,"ev":{...event...}}     after the call returned or raised
  {"t":"done","tid":T}                       history finished
The parent kills the worker when it stalls; a "begin" without "end" is a hang.
"""
from __future__ import annotations

import json
import random
import shutil
import sys
import traceback
from pathlib import Path
from typing import Any, Dict, List

from . import compat  # noqa: F401
from . import h5lib

import h5py
from metador_core.ih5.container import IH5MFRecord, IH5Record


class Session:
    def __init__(self, kind: str, d: Path, name: str, km: h5lib.KeyMap, tk: h5lib.Tokens, rng):
        self.kind, self.d, self.name, self.km, self.tk, self.rng = kind, d, name, km, tk, rng
        self.pool = tk.pool
        self.root: Any = None
        # kinds "mc-h5" / "mc-ih5" / "mc-ih5mf": the same drivers seen through a MetadorContainer (C09)
        self.wrapped = kind.startswith("mc-")
        self.kind = kind = kind[3:] if self.wrapped else kind
        self.cls = {"ih5": IH5Record, "ih5mf": IH5MFRecord}.get(kind)
        self.last_raw = None
        self._raw: Any = None

    # the object user operations go to (self.root) and the driver object boundaries go to (self._raw)
    def _set(self, raw):
        self._raw = raw
        if self.wrapped:
            from metador_core.container import MetadorContainer
            self.root = MetadorContainer(raw)
        else:
            self.root = raw

    # ---- lifecycle
    def create(self):
        if self.kind == "h5":
            self._set(h5py.File(self.d / f"{self.name}.h5", "w"))
        else:
            self._set(self.cls(self.d / self.name, "w"))

    def close(self):
        try:
            if self._raw is not None:
                self._raw.close()
        except Exception:
            pass

    def files(self) -> List[Path]:
        return sorted(p for p in self.d.iterdir() if p.name.startswith(self.name + ".") and p.name.endswith(".ih5"))

    # ---- boundary actions; each returns (ok, exc, extra)
    def do_boundary(self, op: str, e: Dict[str, Any]):
        extra: Dict[str, Any] = {}
        if self.kind == "h5":
            if op == "reopen":
                self._raw.close()
                self._set(h5py.File(self.d / f"{self.name}.h5", "r+"))
            elif op in ("commit", "flush"):
                self._raw.flush()
            return extra
        if op == "commit":
            self._raw.commit_patch()
        elif op == "create_patch":
            self._raw.create_patch()
        elif op == "discard":
            self._raw.discard_patch()
            if self.wrapped:
                self._set(self._raw)     # the container's bookkeeping is read from the record again
        elif op == "reopen":
            self._raw.close()
            fs = self.files()
            extra["cdisk"] = h5lib.disk_digests(self.d, self.name + ".")
            if not self.wrapped:
                # the closed record as bytes on disk, interpreted as PATCH_THEORY.md documents
                extra["raw"] = [h5lib.raw_container(f, self.km, self.tk) for f in self._chain_order(fs)]
                extra["hasraw"] = True
            mode = e.get("mode", "r")
            if self.wrapped and mode == "r":
                mode = "r+"     # a container over a read-only record is a different object of study (C15)
            if e.get("bylist"):
                fl = list(fs)
                self.rng.shuffle(fl)
                raw = self.cls(fl, mode)
            else:
                raw = self.cls(self.d / self.name, mode)
            if mode == "r":
                raw.close()
                raw = self.cls(self.d / self.name, "r+")
            self._set(raw)
        else:
            raise ValueError(op)
        return extra

    def _chain_order(self, fs: List[Path]) -> List[Path]:
        # documented naming: NAME.ih5 is the base, NAME.p<k>.ih5 the k-th patch
        def idx(p: Path):
            parts = p.name[len(self.name):].split(".")
            for s in parts:
                if s.startswith("p") and s[1:].isdigit():
                    return int(s[1:])
            return 0
        return sorted(fs, key=idx)


def event(base: Dict[str, Any], sess: Session, ok, exc, timeout=False, extra=None) -> Dict[str, Any]:
    viewerr = ""
    try:
        proj = h5lib.project(sess.root, sess.km, sess.tk)
        sess.last_proj = proj
    except Exception as ex:  # the implementation cannot even show its tree
        viewerr = type(ex).__name__ + ": " + str(ex)[:200]
        proj = getattr(sess, "last_proj", {"view": [], "visit": []})
    ev = {
        "op": base["op"], "p": base.get("p", []), "q": base.get("q", []),
        "key": base.get("key", ""), "v": base.get("v", ""),
        "shallow": bool(base.get("shallow", False)), "noattrs": bool(base.get("noattrs", False)),
        "k": int(base.get("k", 0)), "b": int(base.get("b", 0)),
        "ok": ok, "exc": exc or "", "timeout": timeout,
        "view": proj["view"], "visit": proj["visit"], "memb": proj.get("memb", []),
        "hasraw": False, "raw": [], "viewerr": viewerr,
        "disk": h5lib.disk_digests(sess.d, sess.name + "."), "cdisk": {},
        "drv": sess.kind,
        "info": {k: base[k] for k in ("via", "how", "mode", "bylist") if k in base},
    }
    if extra:
        ev.update(extra)
    return ev


def expand(item: Dict[str, Any]) -> List[Dict[str, Any]]:
    if item["op"] == "boundary":
        return [{"op": "commit"}, {"op": "create_patch"}]
    if item["op"] == "discard":
        return [{"op": "discard"}, {"op": "create_patch"}]
    return [item]


def run_history(job: Dict[str, Any], out, scratch: Path, tk: h5lib.Tokens):
    tid = job["tid"]
    rng = random.Random(job["seed"])
    km = h5lib.KeyMap(rng, job.get("concrete", False))
    d = scratch / f"h{tid}"
    d.mkdir(parents=True, exist_ok=True)
    sess = Session(job["driver"], d, job.get("name", "rec"), km, tk, rng)

    def emit(o):
        out.write(json.dumps(o) + "\n")
        out.flush()

    try:
        sess.create()
        i = 0
        ev = event({"op": "init"}, sess, True, None)
        ev["keys"] = km.k
        emit({"t": "end", "tid": tid, "ev": ev})
        view = ev["view"]
        graves = set()     # paths seen earlier in this history
        script = job.get("script")
        n = len(script) if script is not None else job.get("nops", 10)
        step = 0
        while step < n:
            if script is not None:
                items = expand(dict(script[step]))
            else:
                r = rng.random()
                if sess.kind != "h5" and r < job.get("pb", 0.2):
                    items = expand({"op": "boundary"})
                elif r < job.get("pb", 0.2) + job.get("pr", 0.06):
                    items = [{"op": "reopen", "mode": rng.choice(["r", "r+", "a"]),
                              "bylist": rng.random() < 0.5}]
                elif sess.kind != "h5" and r < job.get("pb", 0.2) + job.get("pr", 0.06) + job.get("pd", 0.03):
                    items = expand({"op": "discard"})
                else:
                    items = [h5lib.gen_op(rng, view, depth=job.get("depth", 3),
                                          values=job.get("values"),
                                          weights=job.get("weights"),
                                          allow_copy_into_self=job.get("copy_into_self", True),
                                          graves=sorted(graves))]
            step += 1
            for e in items:
                i += 1
                emit({"t": "begin", "tid": tid, "i": i, "e": e})
                ok, exc, extra = True, None, None
                try:
                    if e["op"] in h5lib.USER_OPS:
                        h5lib.apply_op(sess.root, e, km, sess.pool)
                    else:
                        extra = sess.do_boundary(e["op"], e)
                except Exception as ex:  # the implementation refused
                    ok, exc = False, type(ex).__name__ + ": " + str(ex)[:200]
                ev = event(e, sess, ok, exc, extra=extra)
                graves.update(tuple(n_["p"]) for n_ in view if n_["p"])
                view = ev["view"]
                emit({"t": "end", "tid": tid, "ev": ev})
        emit({"t": "done", "tid": tid})
    except Exception:
        emit({"t": "crash", "tid": tid, "tb": traceback.format_exc()[-2000:]})
    finally:
        sess.close()
        shutil.rmtree(d, ignore_errors=True)


def main():
    jobs = json.loads(Path(sys.argv[1]).read_text())
    scratch = Path(sys.argv[1]).parent / (Path(sys.argv[1]).stem + "_scratch")
    scratch.mkdir(parents=True, exist_ok=True)
    tk = h5lib.Tokens(scratch)
    with open(sys.argv[2], "a") as out:
        for job in jobs:
            run_history(job, out, scratch, tk)
    shutil.rmtree(scratch, ignore_errors=True)


if __name__ == "__main__":
    main()
