"""Parent side of the history workers: parallel dispatch, hang watchdog, trace assembly."""
from __future__ import annotations

import json
import os
import subprocess
import time
from pathlib import Path
from typing import Any, Dict, List, Tuple

from .common import NCPU, PY, VERIF, MachineryError


def _parse(out: Path) -> Tuple[Dict[int, List[Any]], set, Dict[int, Any], Dict[int, str]]:
    traces: Dict[int, List[Any]] = {}
    done = set()
    pending: Dict[int, Any] = {}
    crashed: Dict[int, str] = {}
    if not out.exists():
        return traces, done, pending, crashed
    for line in out.read_text().splitlines():
        try:
            o = json.loads(line)
        except ValueError:
            continue  # torn last line of a killed worker
        t = o["tid"]
        if o["t"] == "begin":
            pending[t] = o
        elif o["t"] == "end":
            traces.setdefault(t, []).append(o["ev"])
            pending.pop(t, None)
        elif o["t"] == "done":
            done.add(t)
        elif o["t"] == "crash":
            crashed[t] = o["tb"]
    return traces, done, pending, crashed


def run_histories(jobs: List[Dict[str, Any]], wd: Path, *, module: str = "harness.h5worker",
                  stall: float = 25.0, nproc: int = NCPU) -> Tuple[List[List[Any]], Dict[str, Any]]:
    """Run all jobs (each with a unique "tid"); returns traces ordered like jobs + meta."""
    nproc = max(1, min(nproc, len(jobs)))
    run_histories.calls = getattr(run_histories, "calls", 0) + 1  # type: ignore
    wd = wd / f"hist_{run_histories.calls}"  # type: ignore
    wd.mkdir(parents=True, exist_ok=True)
    buckets: List[List[Dict[str, Any]]] = [jobs[k::nproc] for k in range(nproc)]
    state = []
    for k, b in enumerate(buckets):
        state.append({"k": k, "todo": list(b), "gen": 0, "proc": None, "out": None, "last": 0.0, "size": -1})
    all_traces: Dict[int, List[Any]] = {}
    hangs: List[int] = []
    crashes: Dict[int, str] = {}

    def start(s):
        s["gen"] += 1
        jf = wd / f"jobs_{s['k']}_{s['gen']}.json"
        of = wd / f"out_{s['k']}_{s['gen']}.jsonl"
        jf.write_text(json.dumps(s["todo"]))
        env = dict(os.environ, PYTHONPATH=os.pathsep.join([str(VERIF)] + [x for x in os.environ.get("PYTHONPATH", "").split(os.pathsep) if x]), PYTHONHASHSEED="0", HDF5_USE_FILE_LOCKING="FALSE")
        s["proc"] = subprocess.Popen([PY, "-m", module, str(jf), str(of)], cwd=str(VERIF), env=env,
                                     stdout=subprocess.DEVNULL, stderr=subprocess.PIPE)
        s["out"], s["last"], s["size"] = of, time.time(), -1

    def harvest(s, killed: bool):
        traces, done, pending, crashed = _parse(s["out"])
        crashes.update(crashed)
        finished = done | set(crashed)
        hung_tid = None
        if killed:
            # the history that was running when the worker stalled
            for j in s["todo"]:
                if j["tid"] not in finished:
                    hung_tid = j["tid"]
                    break
        for t, evs in traces.items():
            if t in finished or t == hung_tid:
                all_traces[t] = evs
        if hung_tid is not None:
            evs = all_traces.setdefault(hung_tid, traces.get(hung_tid, []))
            if hung_tid in pending and evs:
                e = pending[hung_tid]["e"]
                prev = evs[-1]
                evs.append({**prev, "op": e["op"], "p": e.get("p", []), "q": e.get("q", []),
                            "key": e.get("key", ""), "v": e.get("v", ""), "shallow": bool(e.get("shallow", False)),
                            "noattrs": bool(e.get("noattrs", False)), "ok": False,
                            "exc": "TIMEOUT", "timeout": True, "hasraw": False, "raw": [], "cdisk": {}, "viewerr": "",
                            "info": {k: e[k] for k in ("via", "how", "mode", "bylist") if k in e}})
                hangs.append(hung_tid)
            finished = finished | {hung_tid}
        s["todo"] = [j for j in s["todo"] if j["tid"] not in finished]

    for s in state:
        if s["todo"]:
            start(s)
    while any(s["proc"] is not None for s in state):
        time.sleep(0.05)
        for s in state:
            p = s["proc"]
            if p is None:
                continue
            rc = p.poll()
            sz = s["out"].stat().st_size if s["out"].exists() else 0
            if sz != s["size"]:
                s["size"], s["last"] = sz, time.time()
            if rc is not None:
                err = p.stderr.read().decode(errors="replace") if p.stderr else ""
                before = len(s["todo"])
                harvest(s, killed=False)
                s["proc"] = None
                if s["todo"]:
                    if len(s["todo"]) == before and rc != 0:
                        raise MachineryError(f"history worker failed (rc={rc}): {err[-2000:]}")
                    # worker died mid-way (e.g. segfault): treat running history as crashed
                    t = s["todo"][0]["tid"]
                    crashes[t] = f"worker exited rc={rc}: {err[-500:]}"
                    s["todo"] = s["todo"][1:]
                    if s["todo"]:
                        start(s)
            elif time.time() - s["last"] > stall:
                p.kill()
                p.wait()
                harvest(s, killed=True)
                s["proc"] = None
                if s["todo"]:
                    start(s)
    traces = [all_traces.get(j["tid"], []) for j in jobs]
    return traces, {"hangs": hangs, "crashes": crashes}
