"""C20 — containers are self-describing about the schemas they use."""
from .contcommon import standard_run


def run(tier: str) -> int:
    return standard_run(
        "C20", tier,
        rule=("container histories as in C06 over the harness schema family (two registration stages, several versions, "
              "3 inheritance levels); after every step the embedded JSON Schema digest, parent chain and package record of "
              "every used schema are compared by TLC with what the plugin system reports, every stored object is validated "
              "with jsonschema (draft 7) against the embedded schema, and the public index of a freshly constructed container "
              "object is compared with the live one"),
        assumptions=["jsonschema.Draft7Validator is the oracle for 'validates against the embedded JSON Schema'"])
