"""C03 — close/reopen reproduces the view; open modes follow the h5py contract."""
from __future__ import annotations

import random
import tempfile
import uuid
from pathlib import Path

from . import common, compat, ih5common as X, protocommon as PC
from .c01 import jobs_random
from .common import Report

CLAUSES = {"list_records_exact", "find_files_exact", "ok_matches_protocol", "state_matches_protocol", "view_function_of_payloads", "neighbours_untouched",
           "records_valid", "observation_changes_nothing", "operation_terminates", "handle_matches_disk"}
DATA_CLAUSES = {"boundary_is_stutter", "discard_restores_commit", "open_does_not_alter_files",
                "view_eq_documented_reading_of_files", "view_readable"}


def userblock_codec(rep: Report, rng: random.Random, n: int):
    """load(save(ub)) == ub for generated user blocks (the chain information survives a file)."""
    from metador_core.ih5.record import IH5UserBlock, USER_BLOCK_SIZE
    import h5py
    bad = 0
    with tempfile.TemporaryDirectory(dir=str(common.WORK)) as td:
        for k in range(n):
            p = Path(td) / f"f{k}.h5"
            h5py.File(p, "w", userblock_size=USER_BLOCK_SIZE).close()
            ub = IH5UserBlock(record_uuid=uuid.UUID(int=rng.getrandbits(128)), patch_uuid=uuid.UUID(int=rng.getrandbits(128)),
                              patch_index=rng.choice([0, 1, 2, 9, 10, 99, 10**6, rng.randrange(10**6)]),
                              prev_patch=rng.choice([None, uuid.UUID(int=rng.getrandbits(128))]),
                              hdf5_hashsum=rng.choice([None, "sha256:" + "%064x" % rng.getrandbits(256)]),
                              ub_exts=rng.choice([{}, {"x": {"a": [1, 2, "z"], "b": None}}, {"ih5mf_v01": {
                                  "is_stub_container": False, "manifest_uuid": str(uuid.UUID(int=rng.getrandbits(128))),
                                  "manifest_hashsum": "sha256:" + "%064x" % rng.getrandbits(256)}}]))
            ub.save(p)
            back = IH5UserBlock.load(p)
            if back != ub:
                bad += 1
                rep.violation(f"user block codec: load(save(ub)) != ub for {ub.json()}", {"ub": ub.json(), "back": back.json()})
            p.unlink()
    rep.parts["userblock_codec_roundtrips"] = {"cases": n, "mismatches": bad}
    rep.evaluations += n


def run(tier: str) -> int:
    rep = Report("C03", tier)
    quick = tier == "quick"
    seed = common.seed()
    rng = random.Random(seed)
    rep.assumptions += [compat.ASSUMPTION]
    rep.rule = ("complete matrix {absent, uncommitted base, committed base, patched, uncommitted patch} x six open modes x "
                "{by name, by permuted file list} x prefix-related neighbour sets, for IH5Record and IH5MFRecord, plus random "
                "protocol histories and data histories with reopen/discard; every event validated by TLC against "
                "IH5Record!Step and H5Tree; distinct = distinct action sequences; non-trivial = more than two actions")
    wd = common.workdir("C03")
    try:
        PC.record_model(rep, wd, 7 if quick else 9, label="protocol_model")
        jobs = PC.matrix_jobs(seed, namesets=(0, 4) if quick else (0, 1, 2, 3, 4, 5, 6, 7)) \
            + PC.many_patches_jobs(seed, start=9000) + PC.cross_class_jobs(seed, start=9500) + PC.close_variant_jobs(seed, start=9600)
        good, verd = PC.run_validate(rep, wd, jobs, "mode_matrix", "harness.protoworker", only=CLAUSES)
        rep.parts["mode_matrix"]["cells"] = sorted({j["label"] for j in jobs})[:8] + ["..."]
        rep.exhaustive = False
        for j, t in good[:1] + good[37:38]:
            rep.sample({"cls": j["cls"], "cell": j["label"],
                        "actions": [[e["op"], e["a"].get("mode", ""), e["a"].get("bylist"), e["ok"], e["h"]["wr"]] for e in t[1:]]})
        jobs = PC.random_proto_jobs(40 if quick else 500, 20 if quick else 32, seed + 5, start=20000)
        g2, v2 = PC.run_validate(rep, wd, jobs, "protocol_histories", "harness.protoworker", only=CLAUSES)
        jobs = jobs_random(40 if quick else 300, 16 if quick else 24, seed + 3, drivers=("ih5", "ih5mf"), pb=0.15, pr=0.2, pd=0.08)
        X.run_and_validate(rep, wd, jobs, "data_histories_with_reopen", clause_filter=lambda c: c in DATA_CLAUSES)
        userblock_codec(rep, rng, 60 if quick else 1500)
        acc = [t for (j, t), v in zip(g2, v2) if not v]
        PC.proto_selftest(rep, wd, acc, rng, n=8 if quick else 24)
    except common.MachineryError as e:
        rep.machinery(str(e)[:2500])
    finally:
        common.cleanup(wd)
    return rep.finish()
