"""C10 — patches built on a stub apply to the real record with the same result; manifests."""
from __future__ import annotations

import copy
import random

from . import common, compat, h5run
from .common import Report, cfg_text, run_tlc
from .ih5common import OVERLAY_CONST

INVS = ["SameOutcome", "SamePatch", "StubPatchAppliesToReal", "DirectPatchOK", "StubSkeleton", "StubHasNoData"]


def stub_model(rep: Report, wd, build: int, patchops: int, mutant="none", tag="stub_model"):
    cfg = cfg_text("StubSpec", constants={**OVERLAY_CONST, "Mutant": mutant, "MaxBuild": build,
                                          "MaxPatchOps": patchops, "MaxFiles": 2}, invariants=INVS)
    return run_tlc("IH5Stub", cfg, wd, tag="_" + tag, timeout=3000)


def run(tier: str) -> int:
    rep = Report("C10", tier)
    quick = tier == "quick"
    seed = common.seed()
    rng = random.Random(seed)
    rep.assumptions += [compat.ASSUMPTION,
                        "manifest sidecars are read from their bytes as documented JSON (manifest_uuid, skeleton, manifest_exts)"]
    rep.rule = ("real IH5MFRecord histories (0-3 patches, deletions, replacements, attribute changes, manifest_exts overrides) with "
                "the manifest observed after every commit; a stub created from the newest manifest; a seeded existence-based "
                "update applied in lock step to the real record and to the stub; the stub's patch appended to the real files; "
                "all judged by TLC (Trace_IH5Stub.tla); distinct = distinct histories; non-trivial = the history reached the "
                "combined check")
    wd = common.workdir("C10")
    try:
        r = stub_model(rep, wd, 2 if quick else 3, 2)
        rep.add_tlc("stub_lockstep_model", r, build_ops=2 if quick else 3, patch_ops=2, invariants=INVS, exhaustive=True)
        if r.violated:
            rep.violation(f"TLC: {r.violated} violated in the stub model: " + " | ".join(r.behaviour[-8:]), {"tlc_out": r.out[-5000:]})
        elif not r.ok:
            rep.machinery(f"TLC failed on stub model: {r.error or r.out[-600:]}")
        elif r.distinct < 1000:
            rep.machinery(f"vacuous stub model: {r.distinct} states")
        # a wrong overlay rule must break the stub invariants too (non-vacuity)
        rm = stub_model(rep, wd, 3, 2, mutant="no_del_marker", tag="stub_model_mutant")
        rep.parts["stub_model_mutant_no_del_marker_killed"] = bool(rm.violated)
        if not rm.violated:
            rep.machinery("stub model: mutant no_del_marker not detected")
        n = 48 if quick else 600
        jobs = [{"tid": k + 1, "seed": seed * 13 + k, "npatches": k % 4, "nops": 4 + k % 4, "patch_ops": 6 + k % 5,
                 "concrete": k % 2 == 0, "sparse": k % 3 == 1} for k in range(n)]
        traces, meta = h5run.run_histories(jobs, wd, module="harness.stubworker", stall=60)
        if meta["crashes"]:
            t, tb = next(iter(meta["crashes"].items()))
            rep.machinery(f"{len(meta['crashes'])} stub worker crashes, e.g. {tb[-700:]}")
        good = [(j, t) for j, t in zip(jobs, traces) if t]
        verd = common.validate_traces("Trace_IH5Stub", [t for _, t in good], wd)
        st = common.validate_traces.last_stats
        rep.states += st["states"]; rep.transitions += st["transitions"]; rep.traces += len(good)
        rep.evaluations += sum(len(t) - 1 for _, t in good)
        counts = {"mf_commit": 0, "patch_op": 0, "patch_op_refused": 0, "combined": 0}
        for (j, t), v in zip(good, verd):
            for e in t:
                if e["op"] in counts:
                    counts[e["op"]] += 1
                if e["op"] == "patch_op" and not e["ok_direct"]:
                    counts["patch_op_refused"] += 1
            if t[-1]["op"] == "combined":
                rep.nontrivial.add(j["tid"])
            if v:
                step = min(s for s, _ in v)
                e = t[step - 1]
                rep.violation(f"stub history tid={j['tid']} step {step} op={e['op']} "
                              f"{ {k: e[k] for k in e if k not in ('dview', 'sview', 'cview', 'mf')} } fails {sorted({c for _, c in v})}",
                              {"job": j, "failing": v, "event": e, "previous": t[step - 2]})
        rep.parts["stub_histories"] = {"histories": len(good), **counts,
                                       "rejected": sum(1 for v in verd if v)}
        for j, t in good[:2]:
            rep.sample({"history": [e["op"] + (":" + e["e"]["op"] if e["op"] == "patch_op" else "") for e in t]})
        if counts["combined"] == 0 or counts["mf_commit"] == 0:
            rep.machinery("vacuous stub histories")
        # binding self-test
        acc = [t for (j, t), v in zip(good, verd) if not v and t[-1]["op"] == "combined"]
        muts, kinds = [], []
        for k in range(8):
            t = copy.deepcopy(rng.choice(acc))
            kind = ["stub_data", "mf_digest", "combined_view", "stub_outcome"][k % 4]
            if kind == "stub_data":
                e = next(x for x in t if x["op"] == "stub_created")
                e["sview"][0]["a"] = {**e["sview"][0]["a"], "k": "v1"}
            elif kind == "mf_digest":
                e = next(x for x in t if x["op"] == "mf_commit")
                e["mf"]["dig"] = "sha256:00"
            elif kind == "combined_view":
                t[-1]["cview"] = t[-1]["cview"] + [{"p": ["zz"], "k": "g", "v": "", "a": {}}]
            else:
                es = [x for x in t if x["op"] == "patch_op"]
                if not es:
                    continue
                es[0]["ok_stub"] = not es[0]["ok_stub"]
            muts.append(t); kinds.append(kind)
        vm = common.validate_traces("Trace_IH5Stub", muts, wd, tag="_selftest")
        missed = [k for k, v in zip(kinds, vm) if not v]
        rep.parts["binding_selftest"] = {"corrupted_traces": len(muts), "rejected": len(muts) - len(missed)}
        if missed:
            rep.machinery(f"binding self-test: corrupted traces accepted: {missed}")
    except common.MachineryError as e:
        rep.machinery(str(e)[:2500])
    finally:
        common.cleanup(wd)
    return rep.finish()
