"""Schema plugins for the plugin-loading part of C13 (module level: annotations must be resolvable)."""
from typing import Optional, Union

from . import compat  # noqa: F401

from metador_core.schema import MetadataSchema
from metador_core.schema.decorators import override


class LP(MetadataSchema):
    class Plugin:
        name = "vl.pp"
        version = (1, 0, 0)
    f: Optional[int]


class LGood(LP):               # narrowing override: fine without declaration
    class Plugin:
        name = "vl.good"
        version = (1, 0, 0)
    f: int


class LBad(LP):                # incompatible override, not declared: must be refused when the plugin is loaded
    class Plugin:
        name = "vl.bad"
        version = (1, 0, 0)
    f: Optional[str]


class LMid(LP):                # not a plugin; widens f without declaration
    f: Union[int, str]


class LLeaf(LMid):             # plugin below it that does not touch f: must be refused as well
    class Plugin:
        name = "vl.leaf"
        version = (1, 0, 0)
    g: Optional[int]


@override("f")
class LDecl(LP):               # the same incompatible override, declared: loads
    class Plugin:
        name = "vl.decl"
        version = (1, 0, 0)
    f: Optional[str]


class LMidOk(LP):              # not a plugin; narrows
    f: int


class LLeafOk(LMidOk):
    class Plugin:
        name = "vl.leafok"
        version = (1, 0, 0)
    g: Optional[int]


EXPECT = {"vl.pp": True, "vl.good": True, "vl.bad": False, "vl.leaf": False, "vl.decl": True, "vl.leafok": True}
CLASSES = [LP, LGood, LBad, LLeaf, LDecl, LLeafOk]
