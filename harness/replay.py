"""Show a replay file written by a check (the failing trace prefix, clause and job)."""
import json
import sys


def main():
    d = json.load(open(sys.argv[1]))
    print("property:", d.get("property"))
    print("what:", d.get("what"))
    if "job" in d:
        print("job:", json.dumps(d["job"])[:2000])
    if "failing" in d:
        print("failing clauses (step, clause):", d["failing"])
    for i, e in enumerate(d.get("trace", [])):
        print(f"  step {i+1}: op={e.get('op')} p={e.get('p')} q={e.get('q')} key={e.get('key')} v={e.get('v')} ok={e.get('ok')} exc={e.get('exc','')[:100]}")
        if i >= len(d.get("trace", [])) - 2:
            print("     view:", [("/".join(n["p"]), n["k"], n["v"], n["a"]) for n in e.get("view", [])])
    for k in d:
        if k not in ("property", "what", "job", "failing", "trace", "replay_hint"):
            print(f"{k}: {json.dumps(d[k], default=str)[:3000]}")


if __name__ == "__main__":
    main()
