"""Offline setup: verifies the tool chain the checks need (nothing is downloaded or built)."""
import shutil
import subprocess
import sys


def main():
    from . import compat  # noqa: F401
    import metador_core  # noqa: F401
    import h5py  # noqa: F401
    assert shutil.which("java"), "java missing"
    p = subprocess.run(["java", "-cp", "/opt/veriftools/tla/tla2tools.jar", "tlc2.TLC", "-h"],
                       capture_output=True, text=True)
    assert "TLC" in (p.stdout + p.stderr), "TLC not runnable"
    print("setup ok: metador_core from", metador_core.__file__)


if __name__ == "__main__":
    sys.exit(main())
