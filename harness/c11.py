"""C11 — a crash while patching never damages what was committed."""
from __future__ import annotations

import random

from . import common, compat, protocommon as PC
from .common import Report

CLAUSES = {"crash_committed_bytes_identical", "crash_committed_subset_shows_last_commit",
           "crash_never_clean_with_unwritten_state"}


def run(tier: str) -> int:
    rep = Report("C11", tier)
    quick = tier == "quick"
    seed = common.seed()
    rep.assumptions += [compat.ASSUMPTION,
                        "a crash is modelled as (a) the directory as it is between two API calls, (b) a torn final user-block "
                        "write: first k bytes of the new block over the old one for every k, manifest not yet written / torn, "
                        "(c) SIGKILL of a child process at random instants; HDF5-internal consistency of an uncommitted payload "
                        "is outside the claim"]
    rep.rule = ("patching histories on IH5Record/IH5MFRecord; every API-call boundary and every prefix length of the commit's "
                "user-block write gives one crash directory; plus process kills; each directory is described from bytes and "
                "opened (committed subset alone, complete set); TLC checks the allowed outcomes; distinct = distinct "
                "(history, crash point); non-trivial = every crash directory")
    wd = common.workdir("C11")
    try:
        PC.record_model(rep, wd, 7 if quick else 9,
                        invs=["CommittedSubsetValid", "NeverCleanUnwritten", "RecordsValid"], label="crash_model")
        jobs = PC.probe_jobs("crash", 2 if quick else 12, seed, rounds=2 if quick else 3, nops=3, all_prefixes=True)
        if quick:   # every prefix length for one history per class, a sample for the others
            for k, j in enumerate(jobs):
                j["all_prefixes"] = (k % 2 == 0)
                j["rounds"] = 1 if k % 2 == 0 else 2
        jobs += PC.probe_jobs("kill", 1 if quick else 4, seed + 1, start=5000, kills=6 if quick else 75, max_delay=0.3)
        good, verd = PC.run_validate(rep, wd, jobs, "crash_probes", "harness.probeworker", only=CLAUSES, stall=120,
                                     describe=lambda e: f"{e.get('what','')}: sub_ok={e.get('sub_ok')} full_ok={e.get('full_ok')} "
                                                        f"full_committed={e.get('full_committed')} changed={e.get('changed')}")
        out = {"fails_to_open": 0, "opens_with_uncommitted_tail": 0, "opens_committed": 0}
        n = 0
        for j, t in good:
            for e in t[1:]:
                n += 1
                rep.nontrivial.add((j["tid"], e.get("what", ""), n))
                if not e["full_ok"]:
                    out["fails_to_open"] += 1
                elif e["full_committed"]:
                    out["opens_committed"] += 1
                else:
                    out["opens_with_uncommitted_tail"] += 1
        rep.parts["crash_probes"].update(crash_directories=n, outcomes=out)
        for j, t in good[:1]:
            for e in t[1:4] + t[-2:]:
                rep.sample({"crash": e["what"], "committed_subset_opens": e["sub_ok"], "full_set_opens": e["full_ok"],
                            "newest_committed": e["full_committed"]})
        if n and min(out.values()) == 0:
            rep.machinery(f"vacuous crash probes: outcome classes {out}")
        PC.record_mutants(rep, wd, ["hash_before_close"])
    except common.MachineryError as e:
        rep.machinery(str(e)[:2500])
    finally:
        common.cleanup(wd)
    return rep.finish()
