"""C15 — node restrictions cannot be escaped by navigating the container."""
from __future__ import annotations

import hashlib
import json
import random
import shutil
from pathlib import Path
from typing import Any, Dict, List

from . import common, compat
from .common import Report, cfg_text, run_tlc

FLAG = {"ro": "read_only", "local": "local_only", "skel": "skel_only"}


def build_fixture(kind: str, d: Path):
    import h5py
    from metador_core.container import MetadorContainer
    from metador_core.ih5.container import IH5Record
    from . import contlib as CL
    d.mkdir(parents=True, exist_ok=True)
    raw = h5py.File(d / "c.h5", "w") if kind == "h5" else IH5Record(d / "c", "w")
    mc = MetadorContainer(raw)
    mc.create_group("g/h")
    mc["d"] = 1
    mc["g/e"] = [1, 2, 3]
    mc["g/h/f"] = 2.5
    # siblings whose names extend a group's name (outside the model's tree: never navigated to, only probed by absolute path)
    mc["gx"] = 5
    mc["g/hx"] = 6
    for p in ("/", "g", "g/h", "d", "g/e", "g/h/f"):
        mc[p].attrs["ak"] = 7
    for p in ("g", "g/e", "g/h/f"):
        mc[p].meta[CL.DD01] = CL.DD01(t="x")
    if kind == "ih5":   # the fixture spans two containers on the IH5 driver
        raw.commit_patch()
        raw.create_patch()
        mc["g/h"].attrs["ak2"] = 1
    return raw, mc


def raw_digest(raw) -> str:
    out: List[Any] = []

    def one(name, o):
        a = sorted((k, repr(v)) for k, v in o.attrs.items())
        val = repr(o[()]) if hasattr(o, "ndim") and not hasattr(o, "keys") else ""
        out.append((name, a, val))
    raw.visititems(one)
    out.append(("/", sorted((k, repr(v)) for k, v in raw["/"].attrs.items()), ""))
    return hashlib.sha1(repr(sorted(out)).encode()).hexdigest()


def flags_of(w) -> List[str]:
    return sorted(k for k, v in {"ro": "read_only", "local": "local_only", "skel": "skel_only"}.items()
                  if any(f.name == v and on for f, on in w.acl.items()))


def pth(n: List[str]) -> str:
    return "/" + "/".join(n)


def navigate(w, step):
    kind, arg = step
    name = pth(arg) if arg else "/"
    key = arg[-1] if arg else ""
    if kind == "getitem":
        return w[key]
    if kind == "get":
        return w.get(key)
    if kind == "items":
        return dict(w.items())[key]
    if kind == "values":
        return next(v for v in w.values() if v.name == name)
    if kind == "visit":
        found = []
        w.visititems(lambda nm, node: found.append(node) if node.name == name else None)
        return found[0]
    if kind == "query":
        return next(x for x in w.metador.query("vf.dd") if x.name == name)
    if kind == "parent":
        return w.parent
    if kind == "restrict":
        return w.restrict(**{FLAG[arg[0]]: True})
    raise ValueError(kind)


def attempts(w, is_group: bool, CL, lroot=None) -> Dict[str, List[Any]]:
    """Named thunks per category; each returns normally iff the operation was carried out."""
    a = w.attrs
    mut = [("attrs.__setitem__", lambda: a.__setitem__("zz", 1)), ("attrs.__delitem__", lambda: a.__delitem__("ak")),
           ("attrs.update", lambda: a.update({"zz": 1})), ("attrs.pop", lambda: a.pop("ak")),
           ("attrs.clear", lambda: a.clear()), ("attrs.setdefault", lambda: a.setdefault("zz", 1)),
           ("attrs.create", lambda: a.create("zz", 1)), ("attrs.modify", lambda: a.modify("ak", 9)),
           ("meta.__setitem__", lambda: w.meta.__setitem__("vf.aa", {"x": 1})),
           ("meta.__delitem__", lambda: w.meta.__delitem__("vf.dd"))]
    if is_group:
        kid = next(iter(w.keys()), "nokid")
        mut += [("create_group", lambda: w.create_group("zz1")), ("require_group", lambda: w.require_group("zz2")),
                ("create_dataset", lambda: w.create_dataset("zz3", data=1)),
                ("require_dataset", lambda: w.require_dataset("zz4", shape=(), dtype="int64", data=1)),
                ("__setitem__", lambda: w.__setitem__("zz5", 1)), ("__delitem__", lambda: w.__delitem__(kid)),
                ("move", lambda: w.move(kid, "zz6")), ("copy", lambda: w.copy(kid, "zz7"))]
    else:
        mut += [("dataset.__setitem__", lambda: w.__setitem__((), 5)), ("dataset.resize", lambda: w.resize((1,))),
                ("dataset.write_direct", lambda: w.write_direct(__import__("numpy").array(1))),
                ("dataset.make_scale", lambda: w.make_scale("s")), ("dataset.flush", lambda: w.flush())]
    read = [("attrs.__getitem__", lambda: a["ak"]), ("attrs.get", lambda: a.get("ak")),
            ("attrs.values", lambda: list(a.values())), ("attrs.items", lambda: list(a.items())),
            ("meta.get", lambda: w.meta.get("vf.dd")), ("meta.__getitem__", lambda: w.meta["vf.dd"]),
            ("meta.values", lambda: list(w.meta.values())), ("meta.items", lambda: list(w.meta.items()))]
    if not is_group:
        read += [("dataset.__getitem__", lambda: w[()])]
    harmless = [("attrs.keys", lambda: list(a.keys())), ("attrs.__contains__", lambda: "ak" in a),
                ("meta.keys", lambda: list(w.meta.keys())), ("meta.__contains__", lambda: "vf.dd" in w.meta),
                ("name", lambda: w.name)]
    if is_group:
        harmless += [("keys", lambda: list(w.keys())), ("__len__", lambda: len(w)), ("__contains__", lambda: "zz" in w)]
    up = [("file", lambda: w.file)]
    # an absolute path is an upward operation where it leaves the local subtree; below a local root "/" nothing does
    # (there the pinned code refuses absolute paths as well, but accepting them would not break the property)
    if is_group and lroot not in (None, []):
        sib = "/" + "/".join(lroot) + "x"       # a sibling of the local root whose name extends the local root's name
        up += [("__getitem__ absolute sibling-prefix", lambda: w[sib]), ("get absolute sibling-prefix", lambda: w.get(sib)),
               ("__contains__ absolute sibling-prefix", lambda: sib in w)]
    if is_group and lroot != []:
        up += [("__getitem__ absolute", lambda: w["/d"]), ("get absolute", lambda: w.get("/d")),
               ("__contains__ absolute", lambda: "/d" in w)]
    return {"mutate": mut, "read": read, "upward": up, "harmless": harmless}


def parse_cases(out: str):
    """The chains printed by TLC (one <<"CASE", "<json>">> line per state)."""
    import re
    res = []
    for m in re.finditer(r'^<<"CASE", (".*")>>$', out, re.M):
        try:
            res.append(json.loads(json.loads(m.group(1))))
        except ValueError:
            continue
    return res


def run(tier: str) -> int:
    rep = Report("C15", tier)
    quick = tier == "quick"
    seed = common.seed()
    rng = random.Random(seed)
    rep.assumptions += [compat.ASSUMPTION,
                        "navigation primitives follow the property's enumeration (children, lookups, listings, visits, parent, query "
                        "results, restrict); `file` is an upward operation; data-reading attributes of h5py.Dataset outside the "
                        "H5DatasetLike protocol are not part of the claim"]
    rep.rule = ("TLC generates every navigation chain (lookup by [], get, items, values, visititems, query results, parent, restrict) "
                "up to the bound from every start node and flag combination over a fixture container, checks that flags only grow "
                "and that local-only wrappers stay below their local root, and exports per chain the expected node, flags and the "
                "expected outcome of every mutating/reading/upward attempt; each chain is executed on real wrappers on h5py.File and "
                "IH5Record; refused attempts must leave the raw container unchanged; distinct = distinct (driver, chain)")
    wd = common.workdir("C15")
    try:
        from . import contlib as CL
        env = CL.Env()
        env.upgrade()
        # configurations: (name, max chain length, start set, lookups, print chains with at least .. steps or None)
        #   all starts with chains up to 2 (thorough: 3); few starts with chains up to 3 (thorough: 4), because a
        #   remembered parent is only handed out after lookup -> restrict -> parent; the invariants alone much deeper
        configs = [("acl_navigation_model", 2 if quick else 3, "AllStarts", "AllHows", 0),
                   ("acl_navigation_model_longer_chains", 3 if quick else 4, "FewStarts", "TwoHows", 3 if quick else 4),
                   ("acl_navigation_model_invariants_deep", 5 if quick else 7, "AllStarts", "AllHows", None)]
        cases = []
        for name, maxchain, starts, hows, emit_from in configs:
            cfg = cfg_text("Spec", constants={"MaxChain": maxchain, "EmitFrom": emit_from or 0, "Mutant": "none"},
                           invariants=["FlagsOnlyGrow", "LocalNeverAbove", "LocalRootStable"] + ([] if emit_from is None else ["Emit"]))
            cfg = cfg.replace("CONSTANTS\n", f"CONSTANTS\n  Starts <- {starts}\n  Hows <- {hows}\n")
            r = run_tlc("MC_ContainerAcl", cfg, wd, timeout=3300, tag="_" + name)
            rep.add_tlc(name, r, max_chain=maxchain, starts=starts, lookups=hows, flag_combinations=8, exhaustive=True)
            if r.violated:
                rep.violation(f"TLC: {r.violated} violated in the ACL model ({name})", {"tlc_out": r.out[-4000:]})
                return rep.finish()
            elif not r.ok:
                rep.machinery(f"TLC failed on ContainerAcl ({name}): {r.error or r.out[-600:]}")
                return rep.finish()
            if emit_from is not None:
                got = parse_cases(r.out)
                if len(got) < 100:
                    rep.machinery(f"no chains printed by TLC ({name}): {len(got)}")
                    return rep.finish()
                cases.append(got)
        # self-test of the invariants: handing out the remembered parent as it was (the pinned behaviour, defect 18)
        # must be rejected by TLC
        cfg = cfg_text("Spec", constants={"MaxChain": 3, "EmitFrom": 0, "Mutant": "parent_as_remembered"},
                       invariants=["FlagsOnlyGrow"])
        cfg = cfg.replace("CONSTANTS\n", "CONSTANTS\n  Starts <- FewStarts\n  Hows <- OneHow\n")
        r = run_tlc("MC_ContainerAcl", cfg, wd, timeout=3000, tag="_mutant")
        rep.parts["mutant_parent_as_remembered"] = {"killed_by": r.violated or ""}
        if r.violated != "FlagsOnlyGrow":
            rep.machinery(f"the mutant parent_as_remembered was not rejected by FlagsOnlyGrow: {r.violated or r.error or r.out[-300:]}")
            return rep.finish()

        def restrict_then_parent(c_):
            ops = [s_[0] for s_ in c_["steps"]]
            return "parent" in ops and "restrict" in ops[: len(ops) - ops[::-1].index("parent") - 1]
        short, longer = cases
        must = [c_ for c_ in longer if restrict_then_parent(c_)]
        rest = [c_ for c_ in longer if not restrict_then_parent(c_)]
        if quick:
            rng.shuffle(short)
            rng.shuffle(rest)
            rng.shuffle(must)
            short, rest, must = short[:900], rest[:200], must[:300]
        else:
            rng.shuffle(rest)
            rest = rest[:4000]
        cases = short + must + rest
        rep.parts["replay_selection"] = {"short_chains": len(short), "longer_restrict_then_parent": len(must), "longer_other": len(rest)}
        stats = {"chains": 0, "attempts_refused_checked": 0, "attempts_allowed_checked": 0, "parent_refusals": 0}
        for kind in ("h5", "ih5"):
            raw, mc = build_fixture(kind, wd / f"fx_{kind}")
            base_digest = raw_digest(raw)
            for ci, case in enumerate(cases):
                n0, f0 = case["nodes"][0], case["flags"][0]
                w = mc[pth(n0)] if n0 else mc["/"]
                if f0:
                    w = w.restrict(**{FLAG[f]: True for f in f0})
                label = f"{kind} start={pth(n0)} flags={f0}"
                ok = True
                for j, step in enumerate(case["steps"]):
                    exp_node, exp_flags = case["nodes"][j + 1], sorted(case["flags"][j + 1])
                    # a wrapper may have been used before the next step is taken on the very same object:
                    # harmless navigation must not influence what later navigation hands out
                    if (ci + j) % 2 == 0 and hasattr(w, "keys"):
                        try:
                            for k_ in list(w.keys())[:2]:
                                w.get(k_)
                            list(w.values())
                            w.visititems(lambda *_: None)
                        except Exception:
                            pass
                    try:
                        w2 = navigate(w, step)
                        refused = False
                    except Exception as ex:
                        refused, w2 = True, None
                        exc = f"{type(ex).__name__}: {str(ex)[:80]}"
                    if exp_node == ["REFUSED"]:
                        stats["parent_refusals"] += 1
                        if not refused:
                            rep.violation(f"{label}: after {case['steps'][:j]} the step {step} must be refused "
                                          f"(local-only node at its local root) but returned {getattr(w2, 'name', w2)}",
                                          {"case": case, "driver": kind})
                        ok = False
                        break
                    if refused:
                        rep.violation(f"{label}: navigation step {step} after {case['steps'][:j]} raised {exc}, "
                                      f"specification: reaches {pth(exp_node)} with flags {exp_flags}", {"case": case, "driver": kind})
                        ok = False
                        break
                    w = w2
                    got_flags = flags_of(w)
                    if w.name != pth(exp_node) or got_flags != exp_flags:
                        rep.violation(f"{label}: after {case['steps'][: j + 1]} the wrapper is {w.name} with flags {got_flags}; "
                                      f"specification: {pth(exp_node)} with flags {exp_flags}", {"case": case, "driver": kind})
                        ok = False
                        break
                stats["chains"] += 1
                rep.nontrivial.add((kind, ci))
                if not ok or case["expect"]["mutate"] == "-":
                    continue
                is_group = hasattr(w, "keys")
                att = attempts(w, is_group, CL, (case.get("lroot") or [None])[0])
                for cat in ("mutate", "read", "upward"):
                    exp = case["expect"][cat]
                    if exp == "allowed" and cat == "mutate":
                        continue  # would change the fixture; the claim is about refusals
                    for nm, thunk in att[cat]:
                        try:
                            thunk()
                            done = True
                        except Exception:
                            done = False
                        if exp == "refused":
                            stats["attempts_refused_checked"] += 1
                            if done:
                                rep.violation(f"{label}: after {case['steps']} ({w.name}, flags {flags_of(w)}) the {cat} operation "
                                              f"{nm} was carried out; specification: refused", {"case": case, "driver": kind, "op": nm})
                        else:
                            stats["attempts_allowed_checked"] += 1
                for nm, thunk in att["harmless"]:
                    try:
                        thunk()
                    except Exception as ex:
                        rep.violation(f"{label}: after {case['steps']} the harmless observation {nm} failed: "
                                      f"{type(ex).__name__}: {str(ex)[:80]}", {"case": case, "driver": kind})
                d2 = raw_digest(raw)
                if d2 != base_digest:
                    rep.violation(f"{label}: after {case['steps']} refused operations changed the container", {"case": case, "driver": kind})
                    base_digest = d2
            raw.close()
            shutil.rmtree(wd / f"fx_{kind}", ignore_errors=True)
        rep.parts["chains_replayed"] = stats
        rep.traces = stats["chains"]
        rep.evaluations = stats["chains"] + stats["attempts_refused_checked"] + stats["attempts_allowed_checked"]
        c = cases[len(cases) // 2]
        rep.sample({"start": pth(c["nodes"][0]), "start_flags": c["flags"][0], "steps": c["steps"],
                    "expected_nodes": [pth(n) for n in c["nodes"]], "expected_flags": c["flags"], "expected_attempts": c["expect"]})
        if stats["attempts_refused_checked"] < 1000 or stats["parent_refusals"] == 0:
            rep.machinery(f"vacuous ACL replay: {stats}")
    except common.MachineryError as e:
        rep.machinery(str(e)[:2500])
    finally:
        common.cleanup(wd)
    return rep.finish()
