"""C16 — plugin references order, match and resolve by semantic version."""
from __future__ import annotations

import itertools
import json
import random

from . import common, compat
from .common import Report, cfg_text, run_tlc

GROUPS = {1: "harvester", 2: "schema"}            # index order = string order
NAMES = {1: "vo.aa", 2: "vo.ab"}


def unbounded_laws(rep: Report, wd):
    """The order / supports laws for ALL natural codes and version components (Apalache)."""
    common.apalache_laws(rep, wd, "PluginOrderUnbounded", "unbounded_laws_apalache",
                         "all natural group/name codes and version components")


def run(tier: str) -> int:
    rep = Report("C16", tier)
    quick = tier == "quick"
    seed = common.seed()
    rng = random.Random(seed)
    rep.assumptions += [compat.ASSUMPTION,
                        "groups/names are numbered in the lexicographic order of the concrete strings they stand for"]
    rep.rule = ("TLC checks the order/supports laws for all pairs and triples over 2 groups x 2 names x versions {0,1,2}^3 and the "
                "registry machine over all subsets of the registry versions, and exports the pair table (leq, supports) and the "
                "registry table (versions, resolve); every table entry is compared with real PluginRef objects (==, <, <=, >, >=, "
                "hash, sorted, set membership) and every registration order with a real PluginGroup (entry points and "
                "register_in_group); entry-point names round trip over a generated name grammar")
    wd = common.workdir("C16")
    try:
        from metador_core.plugin.types import EPName, from_ep_name, to_ep_name
        from metador_core.plugin.util import register_in_group
        from metador_core.plugins import schemas
        from metador_core.schema import MetadataSchema
        from metador_core.schema.plugins import PluginRef
        from . import synth

        out = wd / "tables.json"
        cfg = cfg_text("Spec", constants={"Groups": {1, 2}, "Names": {1, 2}, "Vers": {0, 1, 2}},
                       invariants=["RegistryOK", "Reflexive", "Antisymmetric", "Total", "Trichotomy", "SupportsLaws"],
                       postcondition="ExportTables").replace("CONSTANTS\n", "CONSTANTS\n  RegVersions <- " + ("RegVersionsDef" if quick else "RegVersionsBig") + "\n")
        r = run_tlc("MC_PluginOrder", cfg, wd, workers=4, env={"OUT_FILE": str(out)}, timeout=1800)
        rep.add_tlc("order_laws_and_registry_model", r, refs=108, triples=108 ** 3, registry_versions=5, exhaustive=True)
        if r.violated:
            rep.violation(f"TLC: {r.violated} violated in PluginOrder", {"tlc_out": r.out[-4000:]})
        elif not r.ok or not out.exists():
            rep.machinery(f"TLC failed on PluginOrder: {r.error or r.out[-800:]}")
            return rep.finish()
        tables = json.loads(out.read_text())
        unbounded_laws(rep, wd)
        # concretisation: the model's version components 0 < 1 < 2 stand for 0 < 9 < 10 (the order of numbers with
        # different digit counts is not the order of their text)
        vm = {0: 0, 1: 9, 2: 10}

        def cv(v):
            return [vm[x] for x in v]
        for p_ in tables["pairs"]:
            p_["ref"][2] = cv(p_["ref"][2])
        # (the registry machine works on concrete versions already: MC_PluginOrder!RegVersions*)

        # ---- pair table vs real PluginRef objects
        def mk(ref):
            return PluginRef(group=GROUPS[ref[0]], name=NAMES[ref[1]], version=tuple(ref[2]))
        objs = [mk(p["ref"]) for p in tables["pairs"]]
        twins = [mk(p["ref"]) for p in tables["pairs"]]
        n = len(objs)
        npairs = 0
        for j, p in enumerate(tables["pairs"]):
            leq, sup = set(p["leq"]), set(p["sup"])
            a = objs[j]
            for k in range(n):
                b = objs[k]
                npairs += 1
                exp_leq, exp_geq = (k + 1) in leq, (j + 1) in set(tables["pairs"][k]["leq"])
                got = {"<=": a <= b, ">=": a >= b, "<": a < b, ">": a > b, "==": a == b, "!=": a != b}
                exp = {"<=": exp_leq, ">=": exp_geq, "<": exp_leq and j != k, ">": exp_geq and j != k,
                       "==": j == k, "!=": j != k}
                bad = {o: (got[o], exp[o]) for o in exp if bool(got[o]) != exp[o] or not isinstance(got[o], bool)}
                if bad:
                    rep.violation(f"PluginRef comparison differs from the specification: a={a} b={b} (got, expected)={bad}",
                                  {"a": str(a), "b": str(b), "bad": {k_: list(v) for k_, v in bad.items()}},)
                    break
                s = a.supports(b)
                if s is not ((k + 1) in sup):
                    rep.violation(f"supports differs: {a}.supports({b}) = {s}, specification: {(k + 1) in sup}",
                                  {"a": str(a), "b": str(b)})
                    break
            # equality / hash consistency with an independently constructed twin
            if not (a == twins[j] and hash(a) == hash(twins[j]) and twins[j] in {a} and len({a, twins[j]}) == 1):
                rep.violation(f"equal references are not interchangeable (==/hash/set): {a}", {"a": str(a)})
        # references obtained in other ways than the constructor must be interchangeable with constructed ones
        import pickle
        nalt = 0
        for j in range(n):
            a = objs[j]
            src = objs[(j * 7 + 3) % n]
            hash(src)                                  # the source has been used as a key before
            alts = {"copy(update=...) of a hashed reference": src.copy(update={"group": a.group, "name": a.name, "version": a.version}),
                    "parse_obj(dict)": PluginRef.parse_obj(a.dict()),
                    "parse_raw(json)": PluginRef.parse_raw(a.json()),
                    "pickle round trip of a hashed reference": pickle.loads(pickle.dumps(twins[j]))}
            for how, b in alts.items():
                nalt += 1
                if not (a == b and b == a and hash(a) == hash(b) and b in {a} and a in {b} and len({a, b}) == 1
                        and a <= b and a >= b and not a < b and not a > b):
                    rep.violation(f"a reference obtained by {how} is not interchangeable with the constructed equal reference "
                                  f"{a} (==: {a == b}, hash equal: {hash(a) == hash(b)}, in set: {b in {a}})", {"a": str(a), "how": how})
                    break
        rep.parts["references_obtained_otherwise"] = {"checked": nalt}
        # sorting agrees with the exported ascending order
        sh = objs[:]
        rng.shuffle(sh)
        if [str(x) for x in sorted(sh)] != [str(x) for x in objs]:
            rep.violation("sorted() of shuffled references is not the ascending order of the specification", {})
        rep.evaluations += npairs
        rep.parts["pair_table"] = {"pairs_compared": npairs, "operators": ["<=", ">=", "<", ">", "==", "!=", "supports", "hash", "sorted"]}
        rep.sample({"pair": [str(objs[5]), str(objs[40])], "leq": objs[5] <= objs[40], "supports": objs[5].supports(objs[40])})

        # ---- registry behaviours on a real plugin group
        reg = {tuple(sorted(map(tuple, e["set"]))): e for e in tables["registry"]}
        versions = sorted({tuple(v) for e in tables["registry"] for v in e["set"]})
        orders = list(itertools.permutations(versions))
        rng.shuffle(orders)
        orders = orders[:24] if quick else orders[:600]    # (the registry of the process grows with every replayed order)
        counter = 0
        nreg = 0
        for how in ("entry_points", "register_in_group"):
            for order in orders:
                counter += 1
                name = f"vo.r{counter:04d}"
                classes = {}
                for v in versions:
                    plugin = type("Plugin", (), {"name": name, "version": v})
                    classes[v] = type(MetadataSchema)(f"R{counter}_{'_'.join(map(str, v))}", (MetadataSchema,),
                                                      {"Plugin": plugin, "__annotations__": {"x": int}})
                done = []
                for v in order:
                    if how == "entry_points":
                        synth.register_package(f"vo-pkg-{counter}-{len(done)}", "1.0.0", [classes[v]], modname="verif_synth_c16")
                    else:
                        from metador_core.plugin import entrypoints
                        register_in_group(schemas, classes[v], violently=True)
                    done.append(v)
                    nreg += 1
                    exp = reg[tuple(sorted(done))]
                    got_versions = [tuple(r_.version) for r_ in schemas.versions(name)]
                    if got_versions != [tuple(x) for x in exp["versions"]]:
                        rep.violation(f"{how}: versions({name}) after registering {done} = {got_versions}, "
                                      f"specification {exp['versions']}", {"order": list(map(list, order))})
                        break
                    for rr in exp["resolve"]:
                        req = tuple(rr["req"]) if rr["req"] else None
                        res = schemas.resolve(name, req)
                        got = tuple(res.version) if res is not None else ()
                        if got != tuple(rr["res"]):
                            rep.violation(f"{how}: resolve({name}, {req}) after registering {done} = {got}, "
                                          f"specification {rr['res']}", {"order": list(map(list, order))})
                            break
                        if how == "entry_points":
                            cls = schemas.get(name, req) if req else None
                            if req and ((cls is None) != (not rr["res"]) or (cls is not None and cls is not classes[tuple(rr["res"])])):
                                rep.violation(f"get({name}, {req}) does not return the resolved version's class", {})
                                break
                    refs_in = [schemas.PluginRef(name=name, version=v_) in list(schemas.keys()) for v_ in done]
                    if not all(refs_in) or (name not in schemas):
                        rep.violation(f"{how}: registered versions missing from keys()/in: {done}", {})
                        break
                rep.nontrivial.add((how, order))
        rep.parts["registry_replay"] = {"orders": len(orders) * 2, "registrations": nreg, "all_orders": not quick}
        rep.traces += len(orders) * 2
        rep.sample({"registration_order": [list(v) for v in orders[0]], "versions_after": tables["registry"][-1]["versions"]})

        # ---- a plugin class obtained without a version cannot be subclassed
        name = "vo.r0001"
        unv = schemas.get(name)
        ok_refused = False
        try:
            type(MetadataSchema)("Sub", (unv,), {"__annotations__": {}})
        except TypeError:
            ok_refused = True
        if not ok_refused:
            rep.violation("a schema class obtained without stating a version could be subclassed", {"name": name})
        ver = schemas.get(name, versions[0])
        try:
            type(MetadataSchema)("Sub2", (ver,), {"__annotations__": {}})
        except TypeError as ex:
            rep.violation(f"a schema class obtained WITH a version could not be subclassed: {ex}", {})
        # ---- a request without a version resolves to the requested plugin (newest version), whatever was requested
        # before in the process: ancestors first, then descendants, for installed schemas and a registered chain
        from . import c13models as LM
        synth.register_package("vl-pkg", "1.0.0", [LM.LP, LM.LGood, LM.LLeafOk])
        nunv = 0
        for pname in ["core.dir", "core.bib", "core.file", "core.imagefile", "vl.pp", "vl.good", "vl.leafok",
                      "core.bib", "core.dir", "core.imagefile", "core.file"]:
            nunv += 1
            for how, got in (("get", schemas.get(pname)), ("[]", schemas[pname])):
                ref = schemas.resolve(pname)
                exact = schemas._get_unsafe(ref.name, ref.version)
                if got is None or got.Plugin.name != pname or tuple(got.Plugin.version) != tuple(ref.version) \
                        or set(got.__fields__) != set(exact.__fields__):
                    rep.violation(f"schemas.{how}({pname!r}) without version handed out "
                                  f"{getattr(getattr(got, 'Plugin', None), 'name', None)} with fields {sorted(getattr(got, '__fields__', []))[:6]}",
                                  {"requested": pname})
        rep.parts["unversioned_requests"] = {"requests": nunv}
        # ---- entry point name codec
        letters, alnum = "az", "a9"
        # NAME = letter alnum (sep? alnum)*   (documented grammar in plugin/types.py)
        names1 = [a + b for a in letters for b in alnum] + \
                 [a + b + s + c for a in letters for b in alnum for s in "_-" for c in alnum] + \
                 ["abc", "a1b2", "xx-y_z", "ab" * 20, "a9-9_9"]
        quals = names1 + [a + "." + b for a in names1[:6] for b in names1[:6]] + ["aa.bb.cc.dd", "core.file", "a0.b1"]
        vers = [(0, 0, 0), (0, 1, 0), (1, 2, 3), (10, 0, 7), (2 ** 31, 0, 1), (999999, 999999, 999999)]
        ncodec = 0
        for q in quals:
            for v in vers:
                ncodec += 1
                try:
                    ep = to_ep_name(q, v)
                    back = from_ep_name(EPName(ep))
                    if back != (q, v):
                        rep.violation(f"entry point name codec: {q!r},{v} -> {ep!r} -> {back}", {})
                        break
                except Exception as ex:
                    rep.violation(f"entry point name codec raised for valid name {q!r},{v}: {type(ex).__name__}: {ex}", {})
                    break
        rep.parts["ep_name_codec"] = {"cases": ncodec}
        rep.evaluations += ncodec
    except common.MachineryError as e:
        rep.machinery(str(e)[:2500])
    finally:
        common.cleanup(wd)
    return rep.finish()
