"""C17 — embedded file bytes and their file metadata are exact."""
from . import contcommon as CC

CC.CLAUSES["C17"] = {"embedded_bytes_exact", "file_metadata_exact", "ok_matches_reference", "failed_op_changes_nothing",
                     "tree_is_apply_of_reference", "meta_follows_reference", "drivers_agree", "state_observable"}
CC.MODEL_INVS["C17"] = ["TreeWellFormed", "TocSyncInv"]
CC.MODEL_MUTANTS["C17"] = []


def extra(rep, wd, quick, seed, rng):
    n = 30 if quick else 400
    js = [{"tid": 5000 + k, "seed": seed * 29 + k, "nops": 14 if quick else 24, "stage": 1, "p_pack": 0.4, "nq": 0,
           "p_attach": 0.05, "p_detach": 0.05, "p_reserved": 0.0, "pb": 0.25, "pr": 0.12, "concrete": k % 2 == 0,
           "data_weights": {"copy": 5, "move": 5, "delete": 2, "set_dataset": 1, "create_group": 2, "set_attr": 1, "del_attr": 0.3}}
          for k in range(n)]
    good, verd = CC.run_container(rep, wd, "C17", js, label="pack_file_histories")
    packs = sum(1 for j, t in good for e in t if e["op"] == "pack" and e["d"][0]["ok"])
    toks = sorted({e["a"]["tok"] for j, t in good for e in t if e["op"] == "pack"})
    refused_marker = sum(1 for j, t in good for e in t if e["op"] == "pack" and e["a"]["tok"] == "MARK"
                         for d in e["d"] if d["drv"] != "h5" and not d["ok"])
    merged = sum(1 for j, t in good for e in t if e["op"] == "merged_view")
    maxfiles = max([len(e["d"][0]["files"]) for j, t in good for e in t] or [0])
    rep.parts["pack_file_histories"].update(packed_files=packs, distinct_byte_strings=len(toks), marker_refusals_on_ih5=refused_marker,
                                            merged_views=merged, max_embedded_files_alive=maxfiles)
    if packs < 20 or refused_marker == 0 or merged == 0:
        rep.machinery(f"vacuous pack histories: packs={packs} marker refusals={refused_marker} merged={merged}")
    # binding self-test: corrupt the logged bytes token / size of an embedded file
    import copy
    from . import common
    acc = [t for (j, t), v in zip(good, verd) if not v and any(e["d"][0]["files"] for e in t)]
    muts = []
    for k in range(6 if acc else 0):
        t = copy.deepcopy(rng.choice(acc))
        e = rng.choice([e for e in t if e["d"][0]["files"]])
        d = e["d"][k % len(e["d"])]
        if k % 2:
            d["files"][0]["tok"] = "b0" if d["files"][0]["tok"] != "b0" else "b1"
        else:
            hm = [f for f in d["files"] if f["hasmeta"]]
            if not hm:
                continue
            hm[0]["size"] += 1
        muts.append(t)
    vm = common.validate_traces("Trace_Container", muts, wd, tag="_selftest17", chunk=12) if muts else []
    missed = sum(1 for v in vm if not [x for x in v if x[1] in ("embedded_bytes_exact", "file_metadata_exact")])
    rep.parts["binding_selftest"] = {"corrupted_traces": len(muts), "rejected": len(muts) - missed}
    if not muts and not rep.violations:
        rep.machinery("binding self-test: no accepted pack history to corrupt")
    if missed:
        rep.machinery(f"binding self-test: {missed} corrupted file observations accepted")
    for j, t in good[:1]:
        rep.sample({"ops": [[e["op"], "/".join(e["a"].get("p", [])), "/".join(e["a"].get("q", [])), e["a"].get("tok", ""),
                             [d["ok"] for d in e["d"]]] for e in t[1:]]})


def run(tier: str) -> int:
    return CC.standard_run(
        "C17", tier,
        rule=("pack_file of byte strings from a boundary pool (empty, NULs, trailing NULs, 63/64/65/1023/1024/1025 bytes, all 256 byte "
              "values, marker-like values, HDF5/IH5 magic) followed by seeded continuations (patch boundaries, reopen, copy with and "
              "without metadata, move, delete, detach) in lock step on h5py.File, IH5Record, IH5MFRecord, then the deletion-marker file "
              "(must be refused on IH5 without effect) and a merge of the IH5 records; after every step TLC compares the bytes read "
              "back and contentSize/sha256 of every embedded file the reference tracks"),
        assumptions=["sizes and SHA-256 of the pool are computed by the harness with hashlib"],
        extra=extra)
