"""C06 — container TOC and attached metadata stay in exact one-to-one sync."""
from .contcommon import standard_run


def run(tier: str) -> int:
    return standard_run(
        "C06", tier,
        rule=("seeded histories of attach/detach, create/delete/copy(+-metadata)/move of datasets and groups, refused and "
              "reserved-path operations, executed in lock step on h5py.File, IH5Record and IH5MFRecord with silent patch "
              "boundaries and reopen points; after every step the complete raw state (objects, links, schema/package records, "
              "empty groups) and the live vs rebuilt index are judged by TLC (Container!TOCSync etc.); distinct = distinct "
              "histories; non-trivial = at least one object attached"),
        assumptions=["the documented bookkeeping layout (container/__init__.py) is read through the raw file object",
                     "harness schema family vf.* (3 inheritance levels, several versions, 2 packages) registered through "
                     "synthetic importlib_metadata distributions"])
