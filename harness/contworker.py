"""Worker: MetadorContainer histories in lock step on h5py.File, IH5Record and IH5MFRecord."""
from __future__ import annotations

import json
import random
import shutil
import sys
import traceback
from pathlib import Path
from typing import Any, Dict, List

from . import compat  # noqa: F401
from . import contlib as CL, h5lib

import jsonschema
from metador_core.plugins import schemas

KINDS = ["h5", "ih5", "mf"]

import hashlib as _hl


def byte_pool() -> Dict[str, bytes]:
    """C17 concretisation pool: boundary lengths, NUL-rich, high bytes, marker-like values."""
    vals = [b"", b"\x00", b"a\x00\x00", b"\x00\x00\x00\x00", b"x", b"\x7f\x7f", b"\x7f\x00", b"\x00\x7f", b"\x1a",
            b"\xff\xfe\xfd", bytes(range(256)), b"A" * 63, b"B" * 64, b"G" * 64, b"C" * 65, b"D" * 1023, b"E" * 1024, b"F" * 1025,
            b"text with newline\n", "äöü ✓".encode(), b"\x89HDF\r\n\x1a\n", b"ih5_v01\n1024\n{}\x00",
            bytes(range(256)) * 4097 + b"end",     # a little more than 1 MiB (buffer / mmap thresholds)
            b"zero-nibble-19", b"zero-nibble-29"]   # SHA-256 digests that start with 00 / 0 (numeric round trips of the hex text)
    return {f"b{k}": v for k, v in enumerate(vals)}


BYTES = byte_pool()
BYTES_REV = {v: k for k, v in BYTES.items()}
MARKER = b"\x7f"


def file_observations(drv, km) -> List[Dict[str, Any]]:
    """Every dataset holding raw bytes: the bytes read back (as pool token) and its core.file metadata."""
    import h5py as _h5
    import numpy as _np
    out = []

    def one(name, node):
        if not h5lib.is_dataset(node):
            return
        v = node[()]
        if isinstance(v, _h5.Empty):
            b = b""
        elif isinstance(v, _np.void):
            b = v.tobytes()
        else:
            return
        rec = {"p": [km.abs_key(s) for s in name.strip("/").split("/")], "tok": BYTES_REV.get(b, "?" + _hl.sha1(b).hexdigest()[:12]),
               "hasmeta": False, "size": -1, "sha": "", "id": ""}
        try:
            m = node.meta.get("core.file")
        except Exception:
            m = None
        if m is not None:
            rec.update(hasmeta=True, size=int(m.contentSize), sha=str(m.sha256), id=str(m.id_))
        out.append(rec)
    drv.mc.visititems(one)
    return sorted(out, key=lambda r: r["p"])
RESERVED_SHAPES = ["metador_x", "/metador_x", "{g}/metador_x", "{g}/metador_meta_b/c", "/metador_container",
                   "/metador_container/links", "{g}/metador_meta_", "metador_meta_{k}", "{g}/x/metador_y/z"]
VERSIONS = [[1, 0, 0], [1, 2, 0], [1, 5, 0], [2, 0, 0], [0, 2, 0], [0, 1, 0], [2, 1, 0]]


def validator(raw):
    """Validate stored bytes against the JSON Schema embedded in the container (draft 7)."""
    cache: Dict[str, Any] = {}

    def check(ref, b):
        ep = f"{ref[0]}__{'.'.join(map(str, ref[1]))}"
        try:
            if ep not in cache:
                node = raw[f"/metador_container/schemas/{ep}/jsonschema.json"]
                cache[ep] = json.loads(node[()])
        except Exception:
            return False   # no embedded JSON Schema for the object's schema
        try:
            jsonschema.Draft7Validator(cache[ep]).validate(json.loads(b))
            return True
        except Exception:
            return False
    return check


def observe(drv: CL.Driver, km, tk, rng, env_snap, originals, nq: int) -> Dict[str, Any]:
    rec: Dict[str, Any] = {"drv": drv.kind, "timeout": False, "obs_err": ""}
    try:
        rec.update(CL.raw_projection(drv.raw, km, tk, validate=validator(drv.raw)))
        rec.update(CL.user_projection(drv.mc, km, tk))
        # identity of the container: uuid, specification version, driver type; what it reports as its source and
        # driver must describe the object it wraps
        toc = drv.mc.metador
        rec["ident"] = f"{toc.container_uuid}|{'.'.join(map(str, toc.spec_version))}|{toc.driver_type.name}"
        src = toc.source
        if drv.kind == "h5":
            src_ok = str(src) == str(drv.d / "c.h5") and toc.driver_type.name == "HDF5"
        else:
            rname = Path(str(list(src)[0])).name.split(".")[0] if src else "c"     # "c", or "merged" after a merge
            on_disk = sorted(str(f_) for f_ in drv.d.iterdir() if f_.name.endswith(".ih5") and f_.name.split(".")[0] == rname)
            src_ok = sorted(map(str, src)) == on_disk and toc.driver_type.name == "IH5"
        rec["ident_ok"] = bool(src_ok and isinstance(drv.raw, toc.driver) and toc.spec_version == [1, 0])
        # queries: container level and group level
        qs = []
        nodes = [n["p"] for n in rec["tree"]]
        for _ in range(nq):
            start = rng.choice(nodes) if rng.random() < 0.6 else []
            name = rng.choice(["vf.aa", "vf.aa", "vf.bb", "vf.cc", "vf.dd", "vf.bo"])
            ver = rng.choice([None, None] + VERSIONS)
            how = rng.choice(["container", "node"])
            snode = drv.mc[km.path(start)]
            try:
                if how == "container":
                    res = list(drv.mc.metador.query(name, tuple(ver) if ver else None, node=snode))
                else:
                    res = list(snode.metador.query(name, tuple(ver) if ver else None))
                names = [[km.abs_key(s) for s in r.name.strip("/").split("/") if s] for r in res]
                qs.append({"start": start, "schema": name, "ver": ver or [], "result": names, "err": ""})
            except Exception as ex:
                qs.append({"start": start, "schema": name, "ver": ver or [], "result": [], "err": type(ex).__name__})
        rec["queries"] = qs
        # gets: every stored object by its own schema and by every ancestor schema name
        gets = []
        for m in rec["meta"]:
            node = drv.mc[km.path(m["node"])]
            key = f"{m['schema'][0]}@{'.'.join(map(str, m['schema'][1]))}"
            chain = env_snap["parents"].get(key, [])
            orig = originals.get((tuple(m["node"]), m["schema"][0]))
            for anc in chain:
                cls = schemas._get_unsafe(anc[0], tuple(anc[1]))
                try:
                    got = node.meta.get(cls)
                    g = {"node": m["node"], "stored": m["schema"], "asked": anc, "found": got is not None,
                         "is_instance": isinstance(got, cls), "eq": True, "contains": cls in node.meta,
                         "listed": m["schema"][0] in list(node.meta.keys()), "err": ""}
                    if anc[0] == m["schema"][0] and orig is not None and got is not None:
                        g["eq"] = bool(got == type(got).parse_obj(orig))
                    gets.append(g)
                except Exception as ex:
                    gets.append({"node": m["node"], "stored": m["schema"], "asked": anc, "found": False,
                                 "is_instance": False, "eq": False, "contains": False, "listed": False,
                                 "err": type(ex).__name__ + ": " + str(ex)[:100]})
        rec["gets"] = gets
        # handles obtained earlier (restricted to read-only, metadata looked at once) must show the current metadata of
        # their node: listing and lookups through a held handle = through a fresh one
        stale: List[str] = []
        held = getattr(drv, "held", {})
        for pth, h in list(held.items()):
            try:
                if pth not in drv.mc:
                    del held[pth]
                    continue
                fresh = drv.mc[pth]
                a_, b_ = sorted(h.meta.keys()), sorted(fresh.meta.keys())
                if a_ != b_:
                    stale.append(f"{pth}: held handle lists {a_}, fresh handle {b_}")
                    continue
                for sname in b_:
                    if (h.meta.get(sname) is None) or h.meta.get(sname) != fresh.meta.get(sname) or sname not in h.meta:
                        stale.append(f"{pth}: held handle does not return the current {sname} object")
            except Exception as ex:
                stale.append(f"{pth}: held handle raised {type(ex).__name__}: {str(ex)[:60]}")
                held.pop(pth, None)
        rec["held"] = stale[:4]
        if len(held) < 3 and rec["tree"]:
            n_ = rng.choice(rec["tree"])
            pth = km.path(n_["p"])
            if pth not in held:
                h = drv.mc[pth].restrict(read_only=True)
                list(h.meta.keys())
                held[pth] = h
        drv.held = held
        rec["files"] = file_observations(drv, km)
        rec["index_live"] = CL.index_snapshot(drv.mc)
        rec["index_fresh"] = CL.index_snapshot(CL.MetadorContainer(drv.raw))
    except Exception as ex:
        rec["obs_err"] = type(ex).__name__ + ": " + str(ex)[:300] + " | " + traceback.format_exc()[-400:]
        for k in ("tree", "meta", "links", "schemas", "pkgs", "empties", "weird", "uview", "uvisit", "uextra", "umeta", "queries", "gets", "files"):
            rec.setdefault(k, [])
        rec.setdefault("held", [])
        rec.setdefault("ident", "")
        rec.setdefault("ident_ok", True)
        rec.setdefault("index_live", "")
        rec.setdefault("index_fresh", "")
    return rec


def apply(drv: CL.Driver, a: Dict[str, Any], km, tk, inst):
    op = a["op"]
    mc = drv.mc
    if op in ("copy",):
        mc.copy(km.path(a["p"]), km.path(a["q"]), without_meta=a["without_meta"])
    elif op in h5lib.USER_OPS:
        h5lib.apply_op(mc, a, km, tk.pool)
    elif op == "pack":
        from metador_core.packer.utils import pack_file
        import os
        # the same source path is embedded again and again with other contents (often of the same length) and
        # with the same modification time, as after cp -p / rsync -t / untar
        src = drv.d / "packsrc"
        src.mkdir(exist_ok=True)
        f = src / "some file.bin"
        f.write_bytes(MARKER if a["tok"] == "MARK" else BYTES[a["tok"]])
        os.utime(f, (1_700_000_000, 1_700_000_000))
        pack_file(mc, f, target=km.path(a["p"]).lstrip("/"))
    elif op == "attach":
        node = mc[km.path(a["p"])]
        key = a["schema"] if a["by"] == "name" else CL.CLASSES[a["cls"]]
        val = inst if a["valid"] else dict(CL.INVALID)
        if a["as"] == "object" and a["valid"]:
            val = CL.CLASSES[a["cls"]].parse_obj(inst)
        node.meta[key] = val
    elif op == "detach":
        del mc[km.path(a["p"])].meta[a["schema"]]
    elif op == "passthrough":
        # an attribute of the raw object that the container interface does not define
        getattr(mc if a["on"] == "file" else mc[km.path(a["p"])], a["method"])
    elif op == "reserved" and a["method"].startswith("auto:"):
        call_catalogue(mc, a, km, tk)
    elif op == "reserved":
        # the probe path is generated over abstract keys: address the real (concrete) nodes
        def conc(seg):
            if seg.startswith(CL.META_PREF) and seg[len(CL.META_PREF):] in km.k:
                return CL.META_PREF + km.k[seg[len(CL.META_PREF):]]
            return km.k.get(seg, seg)
        path = "/".join(conc(s_) for s_ in a["rpath"].split("/"))
        base = mc
        m = a["method"]
        val = tk.pool["v1"]
        if m == "__getitem__":
            base[path]
        elif m == "get":
            if base.get(path) is None:
                raise KeyError("get returned nothing")  # "cannot address": no object handed out
        elif m == "__contains__":
            if not (path in base):
                raise KeyError("not contained")
        elif m == "__setitem__":
            base[path] = val
        elif m == "__delitem__":
            del base[path]
        elif m == "create_group":
            base.create_group(path)
        elif m == "require_group":
            base.require_group(path)
        elif m == "create_dataset":
            base.create_dataset(path, data=val)
        elif m == "require_dataset":
            base.require_dataset(path, data=val, shape=(), dtype="int64")
        elif m == "move_src":
            base.move(path, "zz_target")
        elif m == "move_dst":
            base.move(km.path(a["p"]), path)
        elif m == "copy_src":
            base.copy(path, "zz_target")
        elif m == "copy_dst":
            base.copy(km.path(a["p"]), path)
        elif m == "copy_name_kw":
            seg = path.strip("/").split("/")[-1]
            base.copy(km.path(a["p"]), base["/"], name=seg if seg.startswith(CL.PREF) else CL.PREF + seg)
        else:
            raise RuntimeError("harness: unknown reserved method " + m)
    else:
        raise RuntimeError("harness: unknown op " + op)


PATH_PARAMS = ("name", "path", "source", "dest", "key")


def catalogue() -> List[Any]:
    """Every public callable of the group interface that takes a path, with the position(s)
    of its path parameters: the members of the H5GroupLike protocol plus whatever
    MetadorGroup itself defines (so a newly added method is probed without editing this)."""
    import inspect
    from metador_core.container import MetadorGroup
    from metador_core.util.types import H5GroupLike
    names = set(n for n in dir(H5GroupLike) if not n.startswith("_") or n in
                ("__getitem__", "__setitem__", "__delitem__", "__contains__"))
    names |= set(n for n in dir(MetadorGroup) if not n.startswith("_"))
    out = []
    for n in sorted(names):
        f = getattr(MetadorGroup, n, None)
        if not callable(f) or isinstance(f, property):
            continue
        try:
            params = [p for p in inspect.signature(f).parameters.values()][1:]
        except (TypeError, ValueError):
            continue
        pos = [k for k, p in enumerate(params) if p.name in PATH_PARAMS and p.kind in
               (p.POSITIONAL_ONLY, p.POSITIONAL_OR_KEYWORD)]
        for k in pos:
            out.append((n, k, [p.name for p in params if p.kind in (p.POSITIONAL_ONLY, p.POSITIONAL_OR_KEYWORD)
                               and p.default is p.empty]))
    return out


def call_catalogue(mc, a, km, tk):
    _, n, k = a["method"].split(":")
    k = int(k)
    required = a["required"]
    args = []
    for j, pname in enumerate(required):
        if j == k:
            args.append(a["rpath"])
        elif pname in ("source",):
            args.append(km.path(a["p"]))
        elif pname in PATH_PARAMS:
            args.append("zz_target")
        elif pname in ("func",):
            args.append(lambda *x: None)
        else:
            args.append(tk.pool["v1"])
    while len(args) <= k:
        args.append(a["rpath"])
    f = getattr(mc, n)
    r = f(*args)
    if n in ("get",) and r is None:
        raise KeyError("nothing handed out")
    if n == "__contains__" and r is False:
        raise KeyError("not contained")


def passthrough_names(raw_group) -> List[str]:
    from metador_core.container import MetadorGroup
    own = set(dir(MetadorGroup)) | {"mode", "flush", "close"}
    return sorted(n for n in dir(raw_group) if not n.startswith("_") and n not in own)


def gen(rng: random.Random, h5rec: Dict[str, Any], stage: int, job: Dict[str, Any] = None) -> Dict[str, Any]:
    job = job or {}
    tree, meta = h5rec["tree"], h5rec["meta"]
    # flavours shift the mix between metadata, reserved-path and data operations
    pa, pd_, prs = job.get("p_attach", 0.30), job.get("p_detach", 0.08), job.get("p_reserved", 0.07)
    r = rng.random()
    r = 0.0 + (r / pa) * 0.30 if r < pa else (0.30 + (r - pa) / pd_ * 0.08 if r < pa + pd_ else
        (0.38 + (r - pa - pd_) / prs * 0.07 if r < pa + pd_ + prs else 0.45 + (r - pa - pd_ - prs) / max(1e-9, 1 - pa - pd_ - prs) * 0.55))
    a: Dict[str, Any] = {"op": "", "p": [], "q": [], "key": "", "v": "", "without_meta": False, "schema": "",
                         "sver": [], "valid": True, "by": "", "cls": "", "as": "", "method": "", "rpath": "", "via": 0, "tok": "", "ro": False}
    nodes = [n["p"] for n in tree]
    if job.get("p_pack") and rng.random() < job["p_pack"]:
        e = h5lib.gen_op(rng, tree, depth=3, weights={"set_dataset": 1, "create_group": 0, "delete": 0, "set_attr": 0,
                                                      "del_attr": 0, "copy": 0, "move": 0, "require_group": 0})
        a.update(op="pack", p=e["p"], tok=rng.choice(list(BYTES)))
        return a
    ghosts = [g for g in job.get("_ghosts", ()) if not any(n["p"] == g for n in tree)
              and not any(n["k"] == "d" and g[: len(n["p"])] == n["p"] for n in tree if n["p"])]
    fresh_ghosts = [g for g in ghosts if g in job.get("_fresh_ghosts", ())]
    # a fresh node at a path where an annotated node used to be in this session (deleted, or moved away with its group):
    # most telling right after the node went away, whatever kind of operation would have been next
    if (fresh_ghosts and rng.random() < 0.7) or (ghosts and r >= 0.45 and rng.random() < job.get("resurrect_annotated", 0.15)):
        g = rng.choice(fresh_ghosts or ghosts)
        if fresh_ghosts and rng.random() < 0.6:     # preferably a node that went away together with a group above it
            g = max(fresh_ghosts, key=len)
        if rng.random() < 0.7:
            a.update(op="set_dataset", p=g, v=rng.choice(["v1", "v2"]), how=rng.choice(["setitem", "create_dataset"]))
        else:
            a.update(op="create_group", p=g)
        return a
    if r < 0.30:
        a["op"] = "attach"
        a["p"] = rng.choice(nodes) if rng.random() < 0.92 else ["zz", "nope"]
        deep = [n["p"] for n in tree if n["k"] == "d" and len(n["p"]) >= 2]
        if deep and rng.random() < job.get("attach_deep_datasets", 0.3):
            a["p"] = rng.choice(deep)    # metadata on datasets inside groups (moved / copied along with the group later)
        hot = [n for n in nodes if any(s_ in job.get("_hot", ()) for s_ in n)]
        if hot and rng.random() < 0.5:
            a["p"] = rng.choice(hot)     # nodes at or below a name that merely looks reserved
        keys = ["AA10", "AA20", "DD01", "AUX01"] + (["AA12", "BB10", "CC02", "BB10", "CC02", "BO10"] if stage >= 1 else [])
        a["cls"] = rng.choice(keys)
        if rng.random() < job.get("p_installed", 0.2):
            a["cls"] = "I:" + rng.choice(CL.INSTALLED)
        cls = CL.CLASSES[a["cls"]]
        a["schema"] = cls.Plugin.name
        a["by"] = rng.choice(["name", "class", "class"])
        a["sver"] = list(cls.Plugin.version) if a["by"] == "class" else []
        a["as"] = rng.choice(["dict", "object"])
        a["valid"] = rng.random() < 0.9
        if a["by"] == "name":
            # by name the newest installed version is used: the instance must fit that one
            a["cls"] = {"vf.aa": "AA20"}.get(a["schema"], a["cls"])
        if rng.random() < 0.04:
            a["schema"], a["by"], a["cls"] = "vf.unknown", "name", "DD01"
        return a
    if r < 0.38 and meta:
        a["op"] = "detach"
        m = rng.choice(meta)
        a["p"], a["schema"] = m["node"], m["schema"][0]
        if rng.random() < 0.15:
            a["schema"] = rng.choice(CL.NAMES)
        return a
    if r < 0.45:
        a["op"] = "reserved"
        groups = [n["p"] for n in tree if n["k"] == "g" and n["p"]]
        g = "/".join(rng.choice(groups)) if groups else "g0"
        a["rpath"] = rng.choice(RESERVED_SHAPES).format(g=g, k=rng.choice(h5lib.ABSTRACT_KEYS))
        a["method"] = rng.choice(["__getitem__", "get", "__contains__", "__setitem__", "__delitem__", "create_group",
                                  "require_group", "create_dataset", "require_dataset", "move_src", "move_dst",
                                  "copy_src", "copy_dst", "copy_name_kw"])
        a["p"] = rng.choice([n["p"] for n in tree if n["p"]] or [["a"]])
        return a
    if job.get("_pref") and rng.random() < 0.12:
        # delete / move / copy a node whose name is a proper prefix of a sibling's name (run1 next to run10)
        cands = [n["p"] for n in tree if n["p"] and n["p"][-1] in job["_pref"]]
        if cands:
            a.update(op=rng.choice(["delete", "delete", "move", "copy"]), p=rng.choice(cands))
            if a["op"] != "delete":
                a["q"] = [rng.choice(h5lib.ABSTRACT_KEYS) for _ in range(rng.randint(1, 2))]
                if a["q"][: len(a["p"])] == a["p"]:
                    a["op"], a["q"] = "delete", []
            return a
    e = h5lib.gen_op(rng, tree, depth=job.get("depth", 3), values=["v1", "v2", "v3", "v8"],
                     weights=job.get("data_weights") or {"copy": 3.5, "move": 3, "delete": 3, "set_attr": 1.5, "del_attr": 0.7},
                     allow_copy_into_self=False, attr_keys=job.get("attr_keys"))
    a.update({k: e[k] for k in e if k in a or k in ("how",)})
    if a["op"] in ("copy", "move") and rng.random() < job.get("restructure_groups_with_meta", 0.3):
        # the source is a group that contains a dataset carrying metadata (the metadata travels along)
        srcs = [n["p"] for n in tree if n["k"] == "g" and n["p"] and
                any(m["isds"] and m["node"][: len(n["p"])] == n["p"] and len(m["node"]) > len(n["p"]) for m in meta)]
        if srcs:
            src = rng.choice(srcs)
            q = [rng.choice(h5lib.ABSTRACT_KEYS) for _ in range(rng.randint(1, 2))]
            if q[: len(src)] != src and not any(n["p"] == q for n in tree):
                a["p"], a["q"] = src, q     # (never into the source's own subtree: excluded, see H5Tree)
    if a["op"] == "copy":
        a["without_meta"] = rng.random() < 0.3
    return a


def directed_prologue(job: Dict[str, Any], km, stage: int) -> List[Dict[str, Any]]:
    """Short scripted openings that set up situations random walks reach only by luck (each distilled from a seeded change
    that was once caught by chance): they are executed and judged like every other operation, the walk continues after them."""
    kind = job.get("directed")
    if not kind:
        return []
    blank = {"op": "", "p": [], "q": [], "key": "", "v": "", "without_meta": False, "schema": "", "sver": [], "valid": True,
             "by": "", "cls": "", "as": "", "method": "", "rpath": "", "via": 0, "tok": "", "ro": False, "directed": True}

    def mk(op, **kw):
        return dict(blank, op=op, **kw)

    def ds(p, v="v1"):
        return mk("set_dataset", p=p, v=v, how="setitem")

    def attach(p, cls, by="class", as_="object"):
        c = CL.CLASSES[cls]
        return mk("attach", p=p, cls=cls, schema=c.Plugin.name, by=by, sver=list(c.Plugin.version) if by == "class" else [], **{"as": as_})
    child = "BB10" if stage >= 1 else "DD01"       # a schema with an ancestor schema, where installed
    if kind == "prefix_siblings":
        # two sibling groups, one name a proper prefix of the other, both with annotated nodes below; the shorter one goes
        pairs = [(k1, k2) for k1, v1 in km.k.items() for k2, v2 in km.k.items() if k1 != k2 and v2.startswith(v1)]
        k1, k2 = pairs[0] if pairs else ("a", "b")
        return [mk("create_group", p=[k1]), mk("create_group", p=[k2]), ds([k2, "a"]), attach([k2, "a"], "DD01"), attach([k2], child),
                ds([k1, "a"]), attach([k1, "a"], "DD01"), mk("delete", p=[k1])]
    if kind == "two_schemas_one_package":
        # first schema of a package, then a second one of the same package, then the first one's last object goes
        # (vf.dd and vf.aa 2.0.0 come from the same package at every stage; vf.bb and vf.cc from the later one)
        ops = [ds(["a"]), attach(["a"], "DD01"), attach(["a"], "AA20", as_="dict"), mk("detach", p=["a"], schema="vf.dd")]
        if stage >= 1:
            ops += [ds(["b"]), attach(["b"], "BB10"), attach(["b"], "CC02", as_="dict"), mk("detach", p=["b"], schema="vf.bb")]
        return ops + [mk("detach", p=["a"], schema="vf.aa")]
    if kind == "copy_without_meta_below":
        # the only object of a schema with an ancestor sits below a group; the group is copied without metadata
        return [mk("create_group", p=["b"]), ds(["b", "c"]), attach(["b", "c"], child), mk("copy", p=["b"], q=["a"], without_meta=True),
                mk("copy", p=["b"], q=["c"]), mk("delete", p=["a"])]
    if kind == "move_group_then_recreate":
        # an annotated dataset inside a group; the group moves away; a fresh node appears at the old path in the same session
        return [mk("create_group", p=["c"]), ds(["c", "a"]), attach(["c", "a"], "DD01"), attach(["c"], child), mk("move", p=["c"], q=["b"]),
                ds(["c", "a"], "v2"), mk("create_group", p=["c", "b"]), mk("move", p=["b"], q=["c", "c"])]
    return []


def run_history(job: Dict[str, Any], emit, scratch: Path, tk: h5lib.Tokens, env: CL.Env):
    tid = job["tid"]
    rng = random.Random(job["seed"])
    want_prefix = job.get("directed") == "prefix_siblings"
    km = h5lib.KeyMap(rng, job.get("concrete", False) or want_prefix, prefix_family=want_prefix)
    pref = [k for k, v in km.k.items() if any(o != v and o.startswith(v) for o in km.k.values())]
    ext = [k for k, v in km.k.items() if any(o != v and v.startswith(o) for o in km.k.values())]
    job = dict(job, _hot=[k for k, v in km.k.items() if "metador_" in v[1:]] + ext, _pref=pref)
    base = scratch / f"c{tid}"
    kinds = job.get("kinds", KINDS)
    drvs = [CL.Driver(k, base / k) for k in kinds]
    nq = job.get("nq", 4)
    originals: Dict[Any, Any] = {}
    try:
        for d in drvs:
            d.create()
        snap = env.snapshot()
        snap["pool"] = {k: [len(v), _hl.sha256(v).hexdigest()] for k, v in BYTES.items()}
        emit({"t": "end", "tid": tid, "ev": {"op": "init", "a": {"op": "init"}, "env": snap,
                                              "d": [dict(observe(d, km, tk, rng, snap, originals, 0), ok=True, exc="") for d in drvs]}})
        h5rec = None
        step = 0
        ghosts_seen: List[List[str]] = []
        present_before: List[List[str]] = []
        queue = directed_prologue(job, km, env.stage)
        n = job.get("nops", 14)
        prev = None
        while step < n:
            step += 1
            # silent boundary / reopen actions, independently per driver
            broken = None
            for d in drvs:
                x = rng.random()
                try:
                    if x < job.get("pb", 0.18):
                        d.boundary()
                    elif x < job.get("pb", 0.18) + job.get("pr", 0.07):
                        d.reopen()
                except Exception as ex:   # a patch boundary / reopen must always work
                    broken = (d, type(ex).__name__ + ": " + str(ex)[:200])
            if broken is not None:
                base_a = {"op": "reopen", "p": [], "q": [], "key": "", "v": "", "without_meta": False, "schema": "",
                          "sver": [], "valid": True, "by": "", "cls": "", "as": "", "method": "", "rpath": "", "via": 0, "ro": False}
                out = []
                for d in drvs:
                    if d is broken[0]:
                        o = {"drv": d.kind, "timeout": False, "obs_err": "boundary/reopen failed: " + broken[1],
                             "tree": [], "meta": [], "links": [], "schemas": [], "pkgs": [], "empties": [], "weird": [],
                             "uview": [], "uvisit": [], "uextra": [], "umeta": [], "queries": [], "gets": [], "files": [], "index_live": "",
                             "index_fresh": "", "ident": "", "ident_ok": True, "held": [], "ok": False, "exc": broken[1]}
                    else:
                        o = observe(d, km, tk, rng, snap, originals, 0)
                        o.update(ok=True, exc="")
                    out.append(o)
                emit({"t": "end", "tid": tid, "ev": {"op": "reopen", "a": base_a, "env": snap, "d": out}})
                break
            if prev is None:
                prev = observe(drvs[0], km, tk, rng, snap, originals, 0)
            # paths that carried metadata at some point of the history (candidates for re-creation once they are gone)
            for m_ in prev["meta"]:
                if m_["node"] and m_["node"] not in ghosts_seen:
                    ghosts_seen.append(m_["node"])
            job["_ghosts"] = ghosts_seen
            now = [n_["p"] for n_ in prev["tree"]]
            job["_fresh_ghosts"] = [g_ for g_ in present_before if g_ not in now]
            present_before = [g_ for g_ in ghosts_seen if g_ in now]
            a = queue.pop(0) if queue else gen(rng, prev, env.stage, job)
            ro_failed = None
            if a["op"] != "pack" and not a.get("directed") and rng.random() < job.get("p_ro", 0.07):
                # this operation meets containers over drivers opened read-only: it must be refused without effect
                # (only looking up an existing group with require_group succeeds); afterwards writable again
                a["ro"] = True
                for d in drvs:
                    try:
                        d.reopen("r")
                    except Exception as ex:
                        ro_failed = (d, type(ex).__name__ + ": " + str(ex)[:200])
            if ro_failed is not None:      # reopening must always work: reported as an event, not as a harness crash
                out = []
                for d in drvs:
                    if d is ro_failed[0]:
                        out.append({"drv": d.kind, "timeout": False, "obs_err": "reopen failed: " + ro_failed[1],
                                    "tree": [], "meta": [], "links": [], "schemas": [], "pkgs": [], "empties": [], "weird": [],
                                    "uview": [], "uvisit": [], "uextra": [], "umeta": [], "queries": [], "gets": [], "files": [], "index_live": "",
                                    "index_fresh": "", "ident": "", "ident_ok": True, "held": [], "ok": False, "exc": ro_failed[1]})
                    else:
                        o = observe(d, km, tk, rng, snap, originals, 0)
                        o.update(ok=True, exc="")
                        out.append(o)
                emit({"t": "end", "tid": tid, "ev": {"op": "reopen", "a": {**a, "op": "reopen", "ro": False}, "env": snap, "d": out}})
                break
            inst = CL.instances(a["cls"], rng) if a["op"] == "attach" else None
            emit({"t": "begin", "tid": tid, "i": step, "e": a})
            recs = []
            for d in drvs:
                ok, exc = True, ""
                try:
                    apply(d, a, km, tk, inst)
                except RuntimeError as ex:
                    if str(ex).startswith("harness:"):
                        raise
                    ok, exc = False, type(ex).__name__ + ": " + str(ex)[:160]
                except Exception as ex:
                    ok, exc = False, type(ex).__name__ + ": " + str(ex)[:160]
                if a["op"] == "attach" and ok and d is drvs[0]:
                    originals[(tuple(a["p"]), a["schema"])] = inst
                recs.append((d, ok, exc))
            if a["op"] in ("detach", "delete", "move", "copy"):
                # bookkeeping of the originals used as equality oracle for get
                new = {}
                for (p, s), v in originals.items():
                    if a["op"] == "detach" and list(p) == a["p"] and s == a["schema"] and recs[0][1]:
                        continue
                    if a["op"] == "delete" and recs[0][1] and list(p[: len(a["p"])]) == a["p"]:
                        continue
                    if a["op"] in ("move", "copy") and recs[0][1] and list(p[: len(a["p"])]) == a["p"]:
                        q = tuple(a["q"] + list(p[len(a["p"]):]))
                        if not (a["op"] == "copy" and a["without_meta"]):
                            new[(q, s)] = v
                        if a["op"] == "move":
                            continue
                    new[(p, s)] = v
                originals.clear()
                originals.update(new)
            out = []
            qstate = rng.getstate()
            for d, ok, exc in recs:
                rng.setstate(qstate)  # the same query arguments for every driver
                o = observe(d, km, tk, rng, snap, originals, nq)
                o.update(ok=ok, exc=exc)
                out.append(o)
            prev = out[0]
            emit({"t": "end", "tid": tid, "ev": {"op": a["op"], "a": a, "env": snap, "d": out}})
            if a.get("ro"):
                failed = None
                for d in drvs:
                    try:
                        d.reopen("r+")
                    except Exception as ex:   # reopening must always work: reported as an event, not as a harness crash
                        failed = (d, type(ex).__name__ + ": " + str(ex)[:200])
                if failed is not None:
                    out = []
                    for d in drvs:
                        o = {"drv": d.kind, "timeout": False, "obs_err": "reopen failed: " + failed[1] if d is failed[0] else "",
                             "tree": [], "meta": [], "links": [], "schemas": [], "pkgs": [], "empties": [], "weird": [],
                             "uview": [], "uvisit": [], "uextra": [], "umeta": [], "queries": [], "gets": [], "files": [], "index_live": "",
                             "index_fresh": "", "ident": "", "ident_ok": True, "held": [], "ok": d is not failed[0], "exc": failed[1]}
                        if d is not failed[0]:
                            o = observe(d, km, tk, rng, snap, originals, 0)
                            o.update(ok=True, exc="")
                        out.append(o)
                    emit({"t": "end", "tid": tid, "ev": {"op": "reopen", "a": {**a, "op": "reopen", "ro": False}, "env": snap, "d": out}})
                    break
        if job.get("p_pack"):
            base_a = {"op": "", "p": [], "q": [], "key": "", "v": "", "without_meta": False, "schema": "", "sver": [],
                      "valid": True, "by": "", "cls": "", "as": "", "method": "", "rpath": "", "via": 0, "tok": "", "ro": False}
            # the deletion-marker value: must be refused loudly on IH5 (and leave no trace), is ordinary data on HDF5
            a = {**base_a, "op": "pack", "p": ["zzmarker"], "tok": "MARK"}
            out = []
            for d in drvs:
                ok, exc = True, ""
                try:
                    apply(d, a, km, tk, None)
                except Exception as ex:
                    ok, exc = False, type(ex).__name__ + ": " + str(ex)[:120]
                if d.kind == "h5" and ok:
                    del d.mc["zzmarker"]     # keep the drivers comparable afterwards
                    ok, exc = False, "(stored on plain HDF5 as ordinary data, removed again by the harness)"
                o = observe(d, km, tk, rng, snap, originals, 0)
                o.update(ok=ok, exc=exc)
                out.append(o)
            emit({"t": "end", "tid": tid, "ev": {"op": "pack", "a": a, "env": snap, "d": out}})
            # merge of the IH5 records: the merged container must hold the same bytes and file metadata
            a = {**base_a, "op": "merged_view"}
            out = []
            for d in drvs:
                if d.kind == "h5":
                    d.reopen()
                else:
                    d.raw.commit_patch()
                    tgt = d.d / "merged"
                    d.raw.merge_files(tgt)
                    d.raw.close()
                    d.raw = type(d.raw)(tgt, "r+")
                    d.mc = CL.MetadorContainer(d.raw)
                    d.held = {}     # handles of the closed source record are gone
                o = observe(d, km, tk, rng, snap, originals, 0)
                o.update(ok=True, exc="")
                out.append(o)
            emit({"t": "end", "tid": tid, "ev": {"op": "merged_view", "a": a, "env": snap, "d": out}})
        if job.get("catalogue"):
            # every path-taking method x every reserved path shape, and every raw attribute that the
            # interface does not define; each must be refused without any effect
            groups = [n["p"] for n in prev["tree"] if n["k"] == "g" and n["p"]] if prev else []
            g = "/".join(groups[0]) if groups else "g0"
            somep = next((n["p"] for n in (prev["tree"] if prev else []) if n["p"]), ["a"])
            todo = []
            for (mname, k, required) in catalogue():
                for shape in RESERVED_SHAPES:
                    todo.append({"op": "reserved", "method": f"auto:{mname}:{k}", "required": required,
                                 "rpath": shape.format(g=g, k="a"), "p": somep})
            # keyword forms that the signature scan does not see: copy(node, group, name=<reserved>)
            for shape in RESERVED_SHAPES:
                for meth in ("copy_name_kw", "move_dst", "copy_dst", "move_src", "copy_src"):
                    todo.append({"op": "reserved", "method": meth, "rpath": shape.format(g=g, k="a"), "p": somep})
            for nm in passthrough_names(drvs[0].raw["/"]):
                todo.append({"op": "passthrough", "method": nm, "on": "group", "p": groups[0] if groups else []})
            for nm in passthrough_names(drvs[0].raw):
                todo.append({"op": "passthrough", "method": nm, "on": "file", "p": []})
            base_a = {"op": "", "p": [], "q": [], "key": "", "v": "", "without_meta": False, "schema": "", "sver": [],
                      "valid": True, "by": "", "cls": "", "as": "", "method": "", "rpath": "", "via": 0, "ro": False}
            for a0 in todo:
                a = {**base_a, **a0}
                emit({"t": "begin", "tid": tid, "i": step, "e": a})
                out = []
                for d in drvs:
                    ok, exc = True, ""
                    if a["op"] == "passthrough" and not hasattr(d.raw if a["on"] == "file" else d.raw["/"], a["method"]):
                        ok, exc = False, "n/a for this driver"
                    else:
                        try:
                            apply(d, a, km, tk, None)
                        except Exception as ex:
                            ok, exc = False, type(ex).__name__ + ": " + str(ex)[:120]
                    o = observe(d, km, tk, rng, snap, originals, 0)
                    o.update(ok=ok, exc=exc)
                    out.append(o)
                a.pop("required", None)
                emit({"t": "end", "tid": tid, "ev": {"op": a["op"], "a": a, "env": snap, "d": out}})
        emit({"t": "done", "tid": tid})
    finally:
        for d in drvs:
            d.close()
        shutil.rmtree(base, ignore_errors=True)


def main():
    jobs = json.loads(Path(sys.argv[1]).read_text())
    scratch = Path(sys.argv[1]).parent / (Path(sys.argv[1]).stem + "_scratch")
    scratch.mkdir(parents=True, exist_ok=True)
    tk = h5lib.Tokens(scratch)
    env = CL.Env()
    env.upgrade()
    with open(sys.argv[2], "a") as out:
        def emit(o):
            out.write(json.dumps(o) + "\n")
            out.flush()
        for k, job in enumerate(jobs):
            if env.stage == 0 and (job.get("stage", 0) >= 1):
                env.upgrade()
            try:
                run_history(job, emit, scratch, tk, env)
            except Exception:
                emit({"t": "crash", "tid": job["tid"], "tb": traceback.format_exc()[-2500:]})
    shutil.rmtree(scratch, ignore_errors=True)


if __name__ == "__main__":
    main()
