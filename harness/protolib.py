"""Observing IH5 file sets from their bytes (documented naming + user block layout)."""
from __future__ import annotations

import hashlib
import json
import re
import uuid
from pathlib import Path
from typing import Any, Dict, List, Optional, Tuple

UB_SIZE = 1024
MAGIC = "ih5_v01"
MF_EXT = "ih5mf_v01"
FN_RE = re.compile(r"^([A-Za-z0-9\-]+)(?:\.p(\d+))?\.ih5$")
MF_RE = re.compile(r"^([A-Za-z0-9\-]+)(?:\.p(\d+))?\.ih5mf\.json$")


def qdigest(b: bytes) -> str:
    return "sha256:" + hashlib.sha256(b).hexdigest()


def parse_fn(name: str) -> Optional[List[Any]]:
    m = FN_RE.match(name)
    if not m:
        return None
    return [m.group(1), int(m.group(2) or 0)]


def parse_container(path: Path, fn: Optional[List[Any]] = None) -> Dict[str, Any]:
    """User block fields + payload digest of one container file, from its bytes."""
    b = path.read_bytes()
    c = {"fn": fn or parse_fn(path.name) or [path.name, 0], "parse": False, "rec": "", "uuid": "",
         "prev": "", "idx": 0, "hash": "", "pd": qdigest(b[UB_SIZE:]), "mfu": "", "mfh": "", "stub": False,
         "fd": hashlib.sha256(b).hexdigest()[:24]}
    try:
        head = b[:UB_SIZE].decode("utf-8")
        parts = head.split("\n")
        if len(parts) != 3 or parts[0] != MAGIC or int(parts[1]) != UB_SIZE:
            return c
        js = parts[2]
        js = js[: js.index("\x00")]
        ub = json.loads(js)
        # the documented user block model: record_uuid, patch_index, patch_uuid, ub_exts are
        # required; prev_patch and hdf5_hashsum are optional; UUIDs are case-insensitive
        if not isinstance(ub, dict) or not isinstance(ub["ub_exts"], dict):
            return c
        idx = ub["patch_index"]
        if isinstance(idx, bool) or not isinstance(idx, int) or idx < 0:
            return c
        hs = ub.get("hdf5_hashsum")
        if hs is not None and not re.fullmatch(r"(?:sha256|sha512):[0-9a-fA-F]+", str(hs)):
            return c
        prev = ub.get("prev_patch")
        c.update(rec=str(uuid.UUID(ub["record_uuid"])), uuid=str(uuid.UUID(ub["patch_uuid"])),
                 prev=str(uuid.UUID(prev)) if prev is not None else "", idx=idx, hash=str(hs or ""))
        ext = ub["ub_exts"].get(MF_EXT)
        if ext is not None:
            hs2 = str(ext["manifest_hashsum"])
            if not re.fullmatch(r"(?:sha256|sha512):[0-9a-fA-F]+", hs2) or not isinstance(ext["is_stub_container"], bool):
                return c
            c.update(mfu=str(uuid.UUID(ext["manifest_uuid"])), mfh=hs2, stub=ext["is_stub_container"])
        c["parse"] = True
    except Exception:
        c["parse"] = False
    return c


def scan(d: Path, own: List[str]) -> Tuple[List[Dict[str, Any]], List[Dict[str, Any]], str]:
    """(containers of the records named in `own`, their manifests, digest of everything else)."""
    disk, mfd = [], []
    other = hashlib.sha256()
    alt = d / "mfalt"     # manifests the harness moved away from their conventional place (manifest_file=...)
    conventional = {f.name for f in d.iterdir() if f.is_file()}
    moved = [f for f in sorted(alt.iterdir()) if f.is_file() and f.name not in conventional] if alt.is_dir() else []
    for f in sorted(d.iterdir()) + moved:
        if not f.is_file():
            continue
        fn = parse_fn(f.name) if f.parent == d else None
        m = MF_RE.match(f.name)
        if f.parent != d and not (m and m.group(1) in own
                                  and container_path(d, [m.group(1), int(m.group(2) or 0)]).is_file()):
            continue    # a moved manifest whose container is gone is nobody's
        if fn and fn[0] in own:
            disk.append(parse_container(f, fn))
        elif m and m.group(1) in own:
            b = f.read_bytes()
            try:
                u = str(json.loads(b)["manifest_uuid"])
            except Exception:
                u = "unparseable"
            mfd.append({"fn": [m.group(1), int(m.group(2) or 0)], "dig": qdigest(b), "uuid": u})
        else:
            other.update(f.name.encode() + b"\0" + f.read_bytes())
    return disk, mfd, other.hexdigest()[:24]


def container_path(d: Path, fn: List[Any]) -> Path:
    return d / (f"{fn[0]}.ih5" if fn[1] == 0 else f"{fn[0]}.p{fn[1]}.ih5")


def manifest_path(d: Path, fn: List[Any]) -> Path:
    return Path(str(container_path(d, fn)) + "mf.json")


def newest(disk: List[Dict[str, Any]], rname: str) -> Optional[Dict[str, Any]]:
    fs = [c for c in disk if c["fn"][0] == rname]
    return max(fs, key=lambda c: (c["idx"], c["fn"][1])) if fs else None


def fresh_of(c: Optional[Dict[str, Any]]) -> Dict[str, str]:
    if c is None:
        return {"rec": "", "uuid": "", "pd": "", "mfu": "", "mfdig": ""}
    pd = c["pd"] if c["hash"] else "uncommitted"
    return {"rec": c["rec"], "uuid": c["uuid"], "pd": pd, "mfu": c["mfu"], "mfdig": c["mfh"]}
