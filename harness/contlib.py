"""MetadorContainer drivers, the harness schema family, raw and user-level projections."""
from __future__ import annotations

import hashlib
import json
import random
from pathlib import Path
from typing import Any, Dict, List, Optional, Tuple

from . import compat  # noqa: F401
from . import h5lib, synth

import h5py
from metador_core.container import MetadorContainer
from metador_core.container.interface import NodeAcl  # noqa: F401
from metador_core.ih5.container import IH5MFRecord, IH5Record
from metador_core.plugins import schemas
from metador_core.schema import MetadataSchema

from typing import List as TList, Optional as TOpt

PREF = "metador_"
META_PREF = "metador_meta_"
TOC = "metador_container"

# --------------------------------------------------------------------------------------
# the schema family (three inheritance levels, several versions, two packages, one auxiliary)


class AA10(MetadataSchema):
    class Plugin:
        name = "vf.aa"
        version = (1, 0, 0)
    x: int
    y: TOpt[str]


class AA12(MetadataSchema):
    class Plugin:
        name = "vf.aa"
        version = (1, 2, 0)
    x: int
    y: TOpt[str]
    z: TOpt[int]


class AA20(MetadataSchema):
    class Plugin:
        name = "vf.aa"
        version = (2, 0, 0)
    x: int
    yy: TOpt[str]


class BB10(AA12):
    class Plugin:
        name = "vf.bb"
        version = (1, 0, 0)
    w: TOpt[int]


class BO10(AA10):          # derived from the older of the two compatible vf.aa versions (1.0.0 next to 1.2.0)
    class Plugin:
        name = "vf.bo"
        version = (1, 0, 0)
    v: TOpt[int]


class CC02(BB10):
    class Plugin:
        name = "vf.cc"
        version = (0, 2, 0)
    u: TList[int] = []


class DD01(MetadataSchema):
    class Plugin:
        name = "vf.dd"
        version = (0, 1, 0)
    t: str


class AUX01(MetadataSchema):
    class Plugin:
        name = "vf.aux"
        version = (0, 1, 0)
        auxiliary = True
    q: int


STAGE0 = ("vf-base", "1.0.0", [AA10, AA20, DD01, AUX01])
STAGE1 = ("vf-ext", "0.3.1", [AA12, BB10, CC02, BO10])
CLASSES = {"AA10": AA10, "AA12": AA12, "AA20": AA20, "BB10": BB10, "CC02": CC02, "DD01": DD01, "AUX01": AUX01, "BO10": BO10}
# installed schema plugins attached with instances generated from their field types (harness/geninst.py)
INSTALLED = ["core.bib", "core.dir", "core.imagefile", "core.table", "core.person", "example.matsci.method"]
for _n in INSTALLED:
    CLASSES["I:" + _n] = schemas[_n]
NAMES = ["vf.aa", "vf.bb", "vf.cc", "vf.dd", "vf.aux", "vf.bo", "core.file"] + INSTALLED
_inst_pool: Dict[str, List[Dict[str, Any]]] = {}
INVALID = {"definitely": "not valid", "x": "nan", "@id": {"a": 1}, "columns": "nope", "methodType": {"x": 1}}


def _check_invalid():
    for k, c in CLASSES.items():
        try:
            c.parse_obj(INVALID)
        except Exception:
            continue
        raise RuntimeError(f"harness: the invalid instance is accepted by {k}")


_check_invalid()


def instances(cls_key: str, rng: random.Random) -> Dict[str, Any]:
    """A valid instance (as dict) of the schema class."""
    if cls_key.startswith("I:"):
        if cls_key not in _inst_pool:
            from . import geninst
            objs = geninst.instances(CLASSES[cls_key], random.Random(len(cls_key)), 10)
            _inst_pool[cls_key] = [json.loads(o.json()) for o in objs]
        if not _inst_pool[cls_key]:
            return dict(INVALID)    # the class accepts none of the generated candidates: the attach will be refused
        return rng.choice(_inst_pool[cls_key])
    s = rng.choice(["x", "äöü ✓", "line\nbreak", "0", " padded ", "smile \U0001F600", "\U00020BB7", "1e3", "yes"])
    i = rng.choice([0, 1, -1, 2**40, 7])
    return {
        "AA10": {"x": i, "y": rng.choice([None, s])},
        "AA12": {"x": i, "y": rng.choice([None, s]), "z": rng.choice([None, 0, 5])},
        "AA20": {"x": i, "yy": rng.choice([None, s])},
        "BB10": {"x": i, "y": rng.choice([None, s]), "z": rng.choice([None, 0]), "w": rng.choice([None, 0, 9])},
        "CC02": {"x": i, "w": rng.choice([None, 3]), "u": rng.choice([[], [0], [1, 2, 3]])},
        "DD01": {"t": s},
        "BO10": {"x": i, "y": rng.choice([None, s]), "v": rng.choice([None, 4])},
        "AUX01": {"q": i},
    }[cls_key]


class Env:
    """What the plugin system of this process reports for the family (logged with every event)."""

    def __init__(self):
        self.stage = -1

    def upgrade(self):
        self.stage += 1
        pkg, ver, classes = [STAGE0, STAGE1][self.stage]
        synth.register_package(pkg, ver, classes)

    def snapshot(self) -> Dict[str, Any]:
        vers: Dict[str, List[List[int]]] = {}
        parents: Dict[str, Any] = {}
        provider: Dict[str, Any] = {}
        jsdig: Dict[str, str] = {}
        aux: List[str] = []
        pg_mismatch: List[str] = []
        pkg_mismatch: List[str] = []
        for n in NAMES:
            refs = schemas.versions(n)
            vers[n] = [list(r.version) for r in refs]
            for r in refs:
                key = f"{n}@{'.'.join(map(str, r.version))}"
                cls = schemas._get_unsafe(r.name, r.version)
                exact = {(str(c_.Plugin.name), tuple(c_.Plugin.version)): c_ for c_ in CLASSES.values()}
                hcls = exact.get((n, tuple(r.version)), cls)   # (the registry hands out the newest compatible class)
                # the reference parent chain is read off the class hierarchy (every class in the MRO that is itself
                # a plugin), independently of what the plugin group computed
                chain = [c_ for c_ in reversed(hcls.__mro__) if c_.__dict__.get("Plugin") is not None
                         and hasattr(c_.__dict__["Plugin"], "name") and hasattr(c_.__dict__["Plugin"], "version")]
                parents[key] = []
                for c_ in chain:     # (the class handed out by the registry can be a marker subclass of the plugin class)
                    item = [str(c_.Plugin.name), list(c_.Plugin.version)]
                    if not parents[key] or parents[key][-1] != item:
                        parents[key].append(item)
                pp = [[p.name, list(p.version)] for p in schemas.parent_path(r.name, r.version)]
                if pp != parents[key]:
                    pg_mismatch.append(f"{key}: parent_path {pp} but the class chain is {parents[key]}")
                pk = schemas.provider(r)
                provider[key] = [str(pk.name), list(pk.version)]
                # the package description lists exactly the entry points the harness registered, group by group
                dist = synth._DISTS.get(str(pk.name))
                if dist is not None:
                    want = {g_[len("metador_"):]: sorted(n_ for n_, _ in lst) for g_, lst in dist._eps.items()}
                    from metador_core.plugin.types import to_ep_name as _ten
                    got = {str(g_): sorted(str(_ten(x.name, tuple(x.version))) for x in refs_) for g_, refs_ in pk.plugins.items()}
                    if got != want and f"{pk.name}" not in [m_.split(":")[0] for m_ in pkg_mismatch]:
                        pkg_mismatch.append(f"{pk.name}: package description lists {got}, registered {want}")
                jsdig[key] = hashlib.sha1(cls.schema_json().encode()).hexdigest()[:12]
                if cls.Plugin.auxiliary and n not in aux:
                    aux.append(n)
        return {"versions": vers, "parents": parents, "provider": provider, "jsdig": jsdig, "aux": aux,
                "pg_mismatch": pg_mismatch + pkg_mismatch}


# --------------------------------------------------------------------------------------
# drivers


class Driver:
    def __init__(self, kind: str, d: Path):
        self.kind, self.d = kind, d
        d.mkdir(parents=True, exist_ok=True)
        self.raw: Any = None
        self.mc: Any = None

    def create(self):
        if self.kind == "h5":
            self.raw = h5py.File(self.d / "c.h5", "w")
        else:
            self.raw = {"ih5": IH5Record, "mf": IH5MFRecord}[self.kind](self.d / "c", "w")
        self.mc = MetadorContainer(self.raw)

    def reopen(self, mode: str = "r+"):
        try:
            self.raw.close()
        except RuntimeError:
            # HDF5 itself: after refused modifications of a file opened read-only, closing may try to flush its
            # cache and fail with EBADF; nothing can have reached the disk.  Only tolerated for read-only handles.
            if getattr(self, "_mode", "r+") != "r":
                raise
        self._mode = mode
        self.held = {}
        self._nreopen = getattr(self, "_nreopen", 0) + 1
        cls = {"h5": h5py.File, "ih5": IH5Record, "mf": IH5MFRecord}[self.kind]
        src = self.d / ("c.h5" if self.kind == "h5" else "c")
        if self._nreopen % 2:
            self.raw = cls(src, mode)
            self.mc = MetadorContainer(self.raw)
        else:
            # the other documented way: data source + driver class; the container must wrap an object of that very class
            self.mc = MetadorContainer(src, mode, driver=cls)
            self.raw = self.mc.__wrapped__
            if type(self.raw) is not cls:
                raise TypeError(f"MetadorContainer(source, mode, driver={cls.__name__}) wraps a {type(self.raw).__name__}")

    def boundary(self):
        if self.kind != "h5":
            self.raw.commit_patch()
            self.raw.create_patch()

    def close(self):
        try:
            self.raw.close()
        except Exception:
            pass


# --------------------------------------------------------------------------------------
# projections


def dig(b) -> str:
    if isinstance(b, str):
        b = b.encode()
    return hashlib.sha1(bytes(b)).hexdigest()[:12]


def split_ep(ep: str) -> Tuple[str, List[int]]:
    n, v = ep.split("__")
    return n, [int(x) for x in v.split(".")]


def raw_projection(raw, km: h5lib.KeyMap, tk: h5lib.Tokens, validate=None) -> Dict[str, Any]:
    """Everything that is stored, read through the raw file object: user tree, metadata objects,
    TOC links, schema and package records, empty or unexpected bookkeeping nodes."""
    tree: List[Dict[str, Any]] = []
    meta: List[Dict[str, Any]] = []
    links: List[Dict[str, Any]] = []
    srec: List[Dict[str, Any]] = []
    pkgs: List[Dict[str, Any]] = []
    empties: List[str] = []
    weird: List[str] = []

    def attrs_of(o):
        return {km.abs_attr(k): tk.at_tok(v) for k, v in o.attrs.items()}

    def is_res(seg):
        return seg.startswith(PREF)

    def apath(segs):
        return [km.abs_key(s) for s in segs]

    def user_rec(g, segs):
        tree.append({"p": apath(segs), "k": "g", "v": "", "a": attrs_of(g)})
        for key in list(g.keys()):
            child = g[key]
            if key == TOC and not segs:
                continue
            if key.startswith(META_PREF):
                meta_dir(child, segs, key)
                continue
            if is_res(key):
                weird.append("/".join(segs + [key]))
                continue
            if h5lib.is_dataset(child):
                tree.append({"p": apath(segs + [key]), "k": "d", "v": tk.ds_tok(child[()]), "a": attrs_of(child)})
            else:
                user_rec(child, segs + [key])

    def meta_dir(g, segs, key):
        path = "/" + "/".join(segs + [key])
        if h5lib.is_dataset(g):
            weird.append(path)
            return
        isds = key != META_PREF
        node = segs + [key[len(META_PREF):]] if isds else segs
        names = list(g.keys())
        if not names:
            empties.append(path)
        if len(g.attrs.keys()):
            weird.append(path + "@attrs")
        for nm in names:
            o = g[nm]
            try:
                ep, uid = nm.split("=")
                n, v = split_ep(ep)
                b = o[()]
                b = bytes(b) if not isinstance(b, bytes) else b
                m = {"node": apath(node), "isds": isds, "schema": [n, v], "uuid": uid, "content": dig(b),
                     "at": f"{path}/{nm}", "validates": True}
                if validate is not None:
                    m["validates"] = bool(validate([n, v], b))
                meta.append(m)
            except Exception:
                weird.append(f"{path}/{nm}")

    user_rec(raw["/"], [])
    if TOC in raw:
        toc = raw[TOC]
        for key in toc.keys():
            if key in ("version", "uuid"):
                continue
            g = toc[key]
            if key not in ("links", "schemas", "packages") or h5lib.is_dataset(g):
                weird.append(f"/{TOC}/{key}")
                continue
            if not len(list(g.keys())):
                empties.append(f"/{TOC}/{key}")
            for sub in g.keys():
                o = g[sub]
                if key == "links":
                    n, v = split_ep(sub)
                    if not len(list(o.keys())):
                        empties.append(f"/{TOC}/links/{sub}")
                    for uid in o.keys():
                        t = o[uid][()]
                        links.append({"schema": [n, v], "uuid": uid, "target": t.decode() if isinstance(t, bytes) else str(t)})
                elif key == "schemas":
                    n, v = split_ep(sub)
                    kids = sorted(o.keys())
                    rec = {"ref": [n, v], "kids": kids, "parents": [], "jsdig": ""}
                    if "compat" in o:
                        rec["parents"] = [[r["name"], list(r["version"])] for r in json.loads(o["compat"][()])]
                    if "jsonschema.json" in o:
                        js = o["jsonschema.json"][()]
                        rec["jsdig"] = dig(js)
                    srec.append(rec)
                else:
                    info = json.loads(o[()])
                    pkgs.append({"ep": sub, "name": info["name"], "ver": list(info["version"]),
                                 "provides": sorted([[r["name"], list(r["version"])] for r in info["plugins"].get("schema", [])])})
        for k in ("version", "uuid"):
            if k not in toc:
                weird.append(f"/{TOC}/{k} missing")
    tree.sort(key=lambda n: n["p"])
    meta.sort(key=lambda m: (m["node"], m["schema"][0]))
    links.sort(key=lambda l: l["uuid"])
    srec.sort(key=lambda s: (s["ref"][0], s["ref"][1]))
    pkgs.sort(key=lambda p: p["name"])
    return {"tree": tree, "meta": meta, "links": links, "schemas": srec, "pkgs": pkgs,
            "empties": sorted(empties), "weird": sorted(weird)}


def user_projection(mc, km: h5lib.KeyMap, tk: h5lib.Tokens) -> Dict[str, Any]:
    """The tree as the container interface shows it (keys/[]/attrs/visititems/len/in)."""
    p = h5lib.project(mc, km, tk)
    extra: List[str] = list(p.get("memb", []))     # in / get / [] agree with the listing, for listed and unlisted paths

    def chk(g, segs):
        ks = list(g.keys())
        if len(g) != len(ks) or list(iter(g)) != ks:
            extra.append("len/iter differ at /" + "/".join(segs))
        for k in ks:
            if k not in g:
                extra.append(f"'in' denies listed key {k}")
            c = g[k]
            if not h5lib.is_dataset(c):
                chk(c, segs + [k])
            vals = [v.name for v in g.values()]
            its = [n for n, _ in g.items()]
            if len(vals) != len(ks) or its != ks:
                extra.append("values/items differ at /" + "/".join(segs))
    chk(mc["/"], [])
    names: List[str] = []
    mc.visit(lambda n: names.append(n) or None)
    if sorted([km.abs_key(s) for s in n.split("/")] for n in names) != p["visit"]:
        extra.append("visit and visititems disagree")
    # what every node lists as attached metadata (schema names), through a freshly looked-up wrapper
    umeta: List[Dict[str, Any]] = []
    for n in p["view"]:
        try:
            node = mc[km.path(n["p"])] if n["p"] else mc
            for sname in sorted(node.meta.keys()):
                umeta.append({"node": n["p"], "schema": str(sname), "in": bool(sname in node.meta),
                              "got": node.meta.get(sname) is not None})
        except Exception as ex:
            umeta.append({"node": n["p"], "schema": "ERROR " + type(ex).__name__, "in": False, "got": False})
    return {"uview": p["view"], "uvisit": p["visit"], "uextra": extra, "umeta": umeta}


def index_snapshot(mc) -> str:
    """The public schema/package index of a container object, canonically rendered."""
    toc = mc.metador
    sch = toc.schemas
    out: Dict[str, Any] = {"schemas": sorted(str(k) for k in sch.keys()), "packages": sorted(str(k) for k in sch.packages.keys())}
    par, chi, ver, prov = {}, {}, {}, {}
    for k in sch.keys():
        par[str(k)] = [str(r) for r in sch.parent_path(k)]
        prov[str(k)] = str(sch.provider(k).name)
        for r in sch.parent_path(k):
            chi[str(r)] = sorted(str(c) for c in sch.children(r))
            ver[r.name] = sorted(str(c) for c in sch.versions(r.name))
    out.update(parents=par, children=chi, versions=ver, provider=prov)
    return json.dumps(out, sort_keys=True)
