"""Verification harness for metador-core (TLA+ specifications bound to the code)."""
