"""Environment repair needed to import metador_core in this sandbox.

pint 0.21 (a dependency of metador_core.schema.types) uses numpy names that numpy 2.x
removed.  We alias them *in this process only* before importing metador_core.  This is
not a change to the repository; it is recorded as an assumption in every evidence file.
"""
import sys

ASSUMPTION = (
    "numpy 2.x compatibility aliases (cumproduct, bool8, product, ...) are installed in the "
    "harness process so that pint 0.21 and therefore metador_core imports; the repository "
    "itself is unchanged"
)


def install():
    import numpy as np

    alias = {
        "cumproduct": "cumprod",
        "bool8": "bool_",
        "product": "prod",
        "sometrue": "any",
        "alltrue": "all",
        "in1d": "isin",
        "trapz": "trapezoid",
        "row_stack": "vstack",
        "float_": "float64",
        "complex_": "complex128",
        "round_": "round",
        "unicode_": "str_",
        "string_": "bytes_",
        "object0": "object_",
        "int0": "intp",
        "uint0": "uintp",
        "NaN": "nan",
        "Inf": "inf",
    }
    for old, new in alias.items():
        if not hasattr(np, old) and hasattr(np, new):
            setattr(np, old, getattr(np, new))
    if "/repo/src" not in sys.path:
        # the venv has an editable install; this is only a fall-back
        try:
            import metador_core  # noqa: F401
        except Exception:
            sys.path.insert(0, "/repo/src")


install()
