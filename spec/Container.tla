------------------------------ MODULE Container ------------------------------
(***************************************************************************)
(* The Metador container: a user tree plus attached metadata objects and   *)
(* the table of contents (container/__init__.py documents the layout).     *)
(*                                                                         *)
(* Persistent state  C = [tree, meta, links, schemas, pkgs]                *)
(*   tree    : H5Tree of the user nodes (no reserved names)                *)
(*   meta    : set of attached objects                                     *)
(*               [node |-> path, isds |-> BOOLEAN, schema |-> <<name,ver>>, *)
(*                uuid |-> token, content |-> token, at |-> path string]    *)
(*             `at` is where the object is stored, `node`/`isds` the user   *)
(*             node its metadata directory belongs to                       *)
(*   links   : set of [schema, uuid, target]   (TOC entries)               *)
(*   schemas : set of [ref |-> <<name,ver>>, parents |-> Seq of refs]       *)
(*   pkgs    : set of [name, ver, provides |-> set of refs]                 *)
(*                                                                         *)
(* The environment (installed plugins) is a record                         *)
(*   Env = [parents : ref -> Seq(ref) (path from the root schema, ending    *)
(*          in ref), aux : set of names, newest : name -> ref,              *)
(*          provider : ref -> <<pkg name, pkg ver>>]                        *)
(*                                                                         *)
(* ContainerApply(C, e, env) is the reference semantics of every container  *)
(* operation; TOCSync(C) the invariant of C06; Query the declarative        *)
(* meaning of metador.query (C07).                                          *)
(***************************************************************************)
EXTENDS Naturals, Sequences, FiniteSets, SequencesExt, TLC

H5 == INSTANCE H5Tree

RESERVED == "metador_"     \* a path segment is reserved iff the harness marks it so

(* ---- versions -------------------------------------------------------- *)
Supports(req, inst) ==     \* PluginRef.supports: same name and major, req.minor >= inst.minor
    /\ req[1] = inst[1]
    /\ req[2][1] = inst[2][1]
    /\ req[2][2] >= inst[2][2]

SeqToSet(s) == {s[j] : j \in DOMAIN s}

(* ---- invariant C06 ---------------------------------------------------- *)
UsedSchemas(C) == {m.schema : m \in C.meta}

TOCSync(C, env) ==
    /\ \A l \in C.links : \E m \in C.meta : m.uuid = l.uuid /\ m.schema = l.schema /\ m.at = l.target
    /\ \A m \in C.meta : Cardinality({l \in C.links : l.uuid = m.uuid}) = 1
    /\ \A m, n \in C.meta : m # n => m.uuid # n.uuid
    /\ \A l, k \in C.links : l # k => l.uuid # k.uuid
    /\ \A m \in C.meta : H5!Has(C.tree, m.node) /\ (H5!IsData(C.tree, m.node) <=> m.isds)
    /\ \A m, n \in C.meta : (m # n /\ m.node = n.node) => m.schema[1] # n.schema[1]
    /\ {s.ref : s \in C.schemas} = UsedSchemas(C)
    /\ \A s, t \in C.schemas : s.ref = t.ref => s = t
    /\ \A r \in UsedSchemas(C) : \E p \in C.pkgs : r \in p.provides
    /\ \A p \in C.pkgs : p.provides \cap UsedSchemas(C) # {}

SelfDescribing(C, env) ==      \* C20: what is embedded equals what the plugin system says
    /\ \A s \in C.schemas : s.ref \in DOMAIN env.parents /\ s.parents = env.parents[s.ref]
    /\ \A r \in UsedSchemas(C) :
          \E p \in C.pkgs : r \in p.provides /\ <<p.name, p.ver>> = env.provider[r]

(* ---- queries (C07) ---------------------------------------------------- *)
(* the stored schema t satisfies a request for schema name s (version v or   *)
(* <<>> for "any"): t itself or one of its proper ancestors has that name    *)
(* in a version the request supports                                         *)
Matches(t, s, v, env) ==
    \E a \in SeqToSet(env.parents[t]) :
        /\ a[1] = s
        /\ (v = <<>> \/ Supports(<<s, v>>, a))

Query(C, start, s, v, env) ==
    {m.node : m \in {x \in C.meta : H5!Under(start, x.node) /\ Matches(x.schema, s, v, env)}}

(* ---- reference semantics of the operations ----------------------------- *)
Fail(C) == [ok |-> FALSE, C |-> C]
Ok(C)   == [ok |-> TRUE,  C |-> C]

(* schema and package records are functions of the objects in use *)
Derive(C, env) ==
    [C EXCEPT !.schemas = {[ref |-> r, parents |-> env.parents[r]] : r \in UsedSchemas(C)},
              !.links = {[schema |-> m.schema, uuid |-> m.uuid, target |-> m.at] : m \in C.meta},
              !.pkgs = {p \in C.pkgs : p.provides \cap UsedSchemas(C) # {}}]

(* the tree part: H5Tree!Apply on the user tree *)
TreeOp(C, e, env) ==
    LET r == H5!Apply(C.tree, e) IN
    IF ~r.ok THEN Fail(C)
    ELSE CASE e.op = "delete" ->
                Ok(Derive([C EXCEPT !.tree = r.t,
                                    !.meta = {m \in C.meta : ~H5!Under(e.p, m.node)}], env))
           [] OTHER -> Ok([C EXCEPT !.tree = r.t])

(* Everything that is compared modulo fresh identifiers is compared through  *)
(* MetaCore: (node, kind, schema, content).                                  *)
MetaCore(M) == {[node |-> m.node, isds |-> m.isds, schema |-> m.schema, content |-> m.content] : m \in M}

ExpectedMetaCore(C, e, env) ==
    CASE e.op = "copy" /\ ~e.without_meta ->
            MetaCore(C.meta) \cup
            {[node |-> H5!Rebase(m.node, e.p, e.q), isds |-> m.isds, schema |-> m.schema, content |-> m.content]
                : m \in {x \in C.meta : H5!Under(e.p, x.node)}}
      [] e.op = "move" ->
            {[node |-> IF H5!Under(e.p, m.node) THEN H5!Rebase(m.node, e.p, e.q) ELSE m.node,
              isds |-> m.isds, schema |-> m.schema, content |-> m.content] : m \in C.meta}
      [] e.op = "delete" -> MetaCore({m \in C.meta : ~H5!Under(e.p, m.node)})
      [] e.op = "attach" ->
            MetaCore(C.meta) \cup {[node |-> e.p, isds |-> H5!IsData(C.tree, e.p),
                                    schema |-> env.newest[e.schema], content |-> e.content]}
      [] e.op = "detach" -> MetaCore({m \in C.meta : ~(m.node = e.p /\ m.schema[1] = e.schema)})
      [] OTHER -> MetaCore(C.meta)

(* does the reference accept the operation? *)
Accepts(C, e, env) ==
    CASE e.op = "attach" ->
            /\ H5!Has(C.tree, e.p)
            /\ e.schema \in DOMAIN env.newest
            /\ e.schema \notin env.aux
            /\ e.valid
            /\ ~\E m \in C.meta : m.node = e.p /\ m.schema[1] = e.schema
      [] e.op = "detach" -> \E m \in C.meta : m.node = e.p /\ m.schema[1] = e.schema
      [] e.op \in {"reopen", "commit", "create_patch", "observe", "reserved"} -> TRUE
      [] OTHER -> H5!Apply(C.tree, e).ok

ExpectedTree(C, e) ==
    IF e.op \in {"attach", "detach", "reopen", "commit", "create_patch", "observe", "reserved"}
    THEN C.tree ELSE H5!Apply(C.tree, e).t

(* which objects must keep their uuid: all that are not removed; moved ones  *)
(* keep it at their new location                                             *)
KeepsUuid(C, e, m) ==
    CASE e.op = "delete" -> ~H5!Under(e.p, m.node)
      [] e.op = "detach" -> ~(m.node = e.p /\ m.schema[1] = e.schema)
      [] OTHER -> TRUE
NodeAfter(e, m) ==
    IF e.op = "move" /\ H5!Under(e.p, m.node) THEN H5!Rebase(m.node, e.p, e.q) ELSE m.node
=============================================================================
