------------------------------- MODULE DirDiff -------------------------------
(***************************************************************************)
(* C18: directory diffs (util/diff.py).                                    *)
(*                                                                         *)
(* A directory snapshot is a set of entries [p |-> path, k |-> kind,       *)
(* v |-> value] with kind "d" (directory, v = ""), "f" (file, v = content  *)
(* hash token) or "s" (symlink, v = target); the root <<>> is a directory. *)
(*                                                                         *)
(* Reported(a, b): every path whose subtree differs, with status           *)
(* "+" / "-" / "~" and the old and new entry.                              *)
(* Order(a, b): the documented listing order (removed children, modified   *)
(* children, the node itself, added children; alphabetical inside).        *)
(* Apply(a, seq): the applier machine -- processes a node list in order,   *)
(* a removal needs the node to exist with no remaining children, an        *)
(* addition needs its parent to exist as a directory -- and returns the    *)
(* resulting tree, or FAILED if some step is not enabled.                  *)
(***************************************************************************)
EXTENDS Naturals, Sequences, FiniteSets, SequencesExt, TLC

Dir(p)        == [p |-> p, k |-> "d", v |-> ""]
Paths(t)      == {e.p : e \in t}
At(t, p)      == CHOOSE e \in t : e.p = p
Has(t, p)     == p \in Paths(t)
Under(p, q)   == IsPrefix(p, q)
Sub(t, p)     == {[e EXCEPT !.p = SubSeq(e.p, Len(p) + 1, Len(e.p))] : e \in {x \in t : Under(p, x.p)}}
Parent(p)     == SubSeq(p, 1, Len(p) - 1)
KidsOf(t, p)  == {e \in t : Len(e.p) = Len(p) + 1 /\ Under(p, e.p)}

WellFormed(t) ==
    /\ \A e, f \in t : e.p = f.p => e = f
    /\ Has(t, <<>>) /\ At(t, <<>>).k = "d"
    /\ \A e \in t : e.p # <<>> => Has(t, Parent(e.p)) /\ At(t, Parent(e.p)).k = "d"

NONE == [k |-> "none", v |-> ""]
EntryOf(t, p) == IF Has(t, p) THEN [k |-> At(t, p).k, v |-> At(t, p).v] ELSE NONE

Status(a, b, p) == IF ~Has(a, p) THEN "+" ELSE IF ~Has(b, p) THEN "-" ELSE "~"

Reported(a, b) ==
    {[p |-> p, st |-> Status(a, b, p), prev |-> EntryOf(a, p), curr |-> EntryOf(b, p)]
        : p \in {q \in Paths(a) \cup Paths(b) : Sub(a, q) # Sub(b, q)}}

(* ---- the documented order ------------------------------------------------------ *)
KeyLt(p, q, names) ==     \* alphabetical order of the last key (names is the sorted key sequence)
    LET ix(k) == CHOOSE j \in DOMAIN names : names[j] = k IN ix(p[Len(p)]) < ix(q[Len(q)])

RECURSIVE Order(_, _, _, _)
Order(a, b, p, names) ==
    LET R    == Reported(a, b)
        kids == {r.p : r \in {x \in R : Len(x.p) = Len(p) + 1 /\ Under(p, x.p)}}
        rem  == SetToSortSeq({q \in kids : Status(a, b, q) = "-"}, LAMBDA u, w : KeyLt(u, w, names))
        mod  == SetToSortSeq({q \in kids : Status(a, b, q) = "~"}, LAMBDA u, w : KeyLt(u, w, names))
        add  == SetToSortSeq({q \in kids : Status(a, b, q) = "+"}, LAMBDA u, w : KeyLt(u, w, names))
        cat(s) == FoldLeft(LAMBDA acc, q : acc \o Order(a, b, q, names), <<>>, s)
    IN cat(rem) \o cat(mod) \o <<p>> \o cat(add)

(* ---- the applier machine --------------------------------------------------------- *)
FAILED == {[p |-> <<"FAILED">>, k |-> "x", v |-> ""]}

ApplyOne(cur, a, b, p) ==
    IF cur = FAILED THEN FAILED
    ELSE LET st == Status(a, b, p) IN
    IF st = "-" THEN
        IF Has(cur, p) /\ KidsOf(cur, p) = {} /\ p # <<>> THEN cur \ {At(cur, p)} ELSE FAILED
    ELSE IF st = "+" THEN
        IF ~Has(cur, p) /\ Has(cur, Parent(p)) /\ At(cur, Parent(p)).k = "d"
        THEN cur \cup {At(b, p)} ELSE FAILED
    ELSE \* modified: both exist
        IF ~Has(cur, p) THEN FAILED
        ELSE IF At(a, p).k = "d" /\ At(b, p).k = "d" THEN cur      \* only the contents changed
        ELSE IF At(a, p).k = "d" /\ KidsOf(cur, p) # {} THEN FAILED  \* a directory is replaced: must be empty by now
        ELSE (cur \ {At(cur, p)}) \cup {At(b, p)}

RECURSIVE ApplySeq(_, _, _, _, _)
ApplySeq(cur, a, b, s, j) ==
    IF j > Len(s) THEN cur ELSE ApplySeq(ApplyOne(cur, a, b, s[j]), a, b, s, j + 1)

Transforms(a, b, s) ==      \* processing s in order turns a into b
    IF a = b THEN s = <<>> ELSE ApplySeq(a, a, b, s, 1) = b
=============================================================================
