-------------------------- MODULE Trace_PluginLoad --------------------------
(***************************************************************************)
(* Conformance of plugin loading with PluginLoad.tla.  One trace per family *)
(* of harness-registered schema plugins: the dependency graph (`requires`   *)
(* edges and parent plugins), the invalid plugins, and the requests in the  *)
(* order they were made with their outcome and -- as far as the group shows *)
(* it -- what it counts as loaded afterwards.  The order in which the code  *)
(* visits dependencies is not observable, so the clauses are the ones that  *)
(* hold for every order (checked for every order on the model):             *)
(*   outcome_is_loadable       ok <=> nothing in the closure is invalid     *)
(*   loaded_closed_and_valid   the loaded plugins of the family             *)
(*   granted_closure_loaded    a granted request leaves its closure loaded  *)
(*   loaded_only_grows                                                     *)
(***************************************************************************)
EXTENDS Naturals, Sequences, FiniteSets, SequencesExt, Json, IOUtils, TLC

Traces == JsonDeserialize(IOEnv.TRACE_FILE)
VARIABLES tid, i, bad, dep, invalid, ord, loaded, last
vars == <<tid, i, bad, dep, invalid, ord, loaded, last>>
P == INSTANCE PluginLoad WITH Plugins <- {}, Mutant <- "none"

SeqToSet(s) == {s[j] : j \in DOMAIN s}
DepOf(t) == [p \in {x[1] : x \in SeqToSet(t.dep)} |-> SeqToSet((CHOOSE x \in SeqToSet(t.dep) : x[1] = p)[2])]

Clauses(t, e, before) ==
    LET d == DepOf(t) inv == SeqToSet(t.invalid) L == SeqToSet(e.loaded) IN
    (IF e.ok # P!Loadable(d, inv, e.p) THEN {"outcome_is_loadable"} ELSE {})
    \cup (IF t.hasloaded /\ \E q \in L : ~(P!Closure(d, q) \subseteq L /\ P!Loadable(d, inv, q))
          THEN {"loaded_closed_and_valid"} ELSE {})
    \cup (IF t.hasloaded /\ e.ok /\ ~(P!Closure(d, e.p) \subseteq L) THEN {"granted_closure_loaded"} ELSE {})
    \cup (IF t.hasloaded /\ ~(before \subseteq L) THEN {"loaded_only_grows"} ELSE {})

Init == /\ tid \in 1..Len(Traces) /\ i = 1 /\ bad = {} /\ loaded = {}
        /\ dep = <<>> /\ invalid = {} /\ ord = <<>> /\ last = [p |-> 0, ok |-> TRUE]
Step ==
    /\ i <= Len(Traces[tid].reqs)
    /\ LET t == Traces[tid] e == t.reqs[i] IN
       /\ bad' = bad \cup {<<i, c>> : c \in Clauses(t, e, loaded)}
       /\ loaded' = SeqToSet(e.loaded)
    /\ i' = i + 1
    /\ UNCHANGED <<tid, dep, invalid, ord, last>>
Done ==
    /\ i = Len(Traces[tid].reqs) + 1
    /\ TLCSet(tid, bad)
    /\ i' = i + 1
    /\ UNCHANGED <<tid, bad, dep, invalid, ord, loaded, last>>
TraceSpec == Init /\ [][Step \/ Done]_vars
WriteVerdicts ==
    JsonSerialize(IOEnv.OUT_FILE, [t \in 1..Len(Traces) |-> SetToSeq(TLCGet(t))])
=============================================================================
