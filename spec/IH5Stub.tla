------------------------------ MODULE IH5Stub ------------------------------
(***************************************************************************)
(* Patching over stubs (PATCH_THEORY.md, "Patching over Stubs"; C10).      *)
(*                                                                         *)
(* Phase "build": a real record is produced by an arbitrary history (the   *)
(* IH5Overlay machine).  Phase "patch": the same existence-based update    *)
(* (create / delete / set-attr / del-attr chosen without reading data) is  *)
(* applied in lock step                                                    *)
(*     - directly:   rfiles = files \o <<patch>>                           *)
(*     - over a stub: sfiles = StubOf(files) \o <<patch>>                  *)
(* Invariants: both runs accept/refuse the same operations, the patch      *)
(* container built over the stub is the one built directly, and appended   *)
(* to the real containers it shows the reference tree.                     *)
(***************************************************************************)
EXTENDS IH5Overlay

CONSTANTS MaxBuild, MaxPatchOps, MaxFiles

VARIABLES phase, rfiles, sfiles, nops

svars == <<files, ref, okm, fresh, touched, phase, rfiles, sfiles, nops>>

StubInit == Init /\ phase = "build" /\ rfiles = <<>> /\ sfiles = <<>> /\ nops = 0

Build ==
    /\ phase = "build" /\ nops < MaxBuild
    /\ (UserOp \/ (Boundary /\ Len(files) < MaxFiles))
    /\ nops' = nops + 1
    /\ UNCHANGED <<phase, rfiles, sfiles>>

StartPatch ==
    /\ phase = "build"
    /\ phase' = "patch"
    /\ rfiles' = Append(files, EmptyContainer)
    /\ sfiles' = Append(StubOf(files), EmptyContainer)
    /\ nops' = 0
    /\ UNCHANGED <<files, ref, okm, fresh, touched>>

PatchOp ==
    /\ phase = "patch" /\ nops < MaxPatchOps
    /\ \E e \in Ops :
         LET wr == Write(rfiles, e) ws == Write(sfiles, e) r == H5!Apply(ref, e) IN
         /\ rfiles' = IF wr.ok THEN wr.f ELSE rfiles
         /\ sfiles' = IF ws.ok THEN ws.f ELSE sfiles
         /\ ref' = r.t
         /\ okm' = (wr.ok = r.ok /\ ws.ok = r.ok)
    /\ nops' = nops + 1
    /\ UNCHANGED <<files, phase, fresh, touched>>

StubNext == Build \/ StartPatch \/ PatchOp
StubSpec == StubInit /\ [][StubNext]_svars

(* ---- properties (C10) ---- *)
SameOutcome == okm
SamePatch == phase = "patch" => LastC(sfiles) = LastC(rfiles)
StubPatchAppliesToReal ==
    phase = "patch" => View(Append(files, LastC(sfiles))) = ref
DirectPatchOK == phase = "patch" => View(rfiles) = ref
StubSkeleton == phase = "build" => Skeleton(View(StubOf(files))) = Skeleton(View(files))
StubHasNoData ==
    phase = "build" =>
      \A n \in View(StubOf(files)) : (n.k = "d" => n.v = STUB) /\ \A x \in DOMAIN n.a : n.a[x] = STUB
=============================================================================
