--------------------------- MODULE MC_PartialMerge ---------------------------
EXTENDS PartialMerge
(* quick universe: 3*2*3*3*4 = 216 partial values, 10 M triples would be too many for a  *)
(* quick run, so the quick configuration drops b and uses 3*3*3*4 = 108 values           *)
L_small == {<<>>, <<"0">>}
S_small == {{}, {"0"}}
S_one   == {{"0"}}
L_big   == {<<>>, <<"0">>, <<"7", "0">>}
S_big   == {{}, {"0"}, {"0", "7"}}
=============================================================================
