--------------------------- MODULE PackerPipeline ---------------------------
(***************************************************************************)
(* The packer life cycle (packer/__init__.py PGPacker.pack / update /       *)
(* _prepare / _finalize) as a state machine over a source directory and a   *)
(* container: the consumer the directory diff (C18), the directory hashsums *)
(* (C19) and the file embedding (C17) exist for.                            *)
(*                                                                         *)
(* dir    the source directory: a DirDiff snapshot (set of entries)         *)
(* cont   NoCont, or the container: [tree |-> what it holds (groups "d",    *)
(*        embedded files "f" with their content token), src |-> the source  *)
(*        snapshot recorded in its core.packerinfo object, by |-> packer    *)
(*        that packed it, gen |-> number of completed pack/update runs,     *)
(*        wrote |-> the paths the last run wrote or deleted]                *)
(* last   outcome of the last call ("ok", "rejected", "-")                  *)
(*                                                                         *)
(* One action per public call.  A packer is the documented one-to-one       *)
(* mirror (example.py GenericPacker without its table/bibliography special  *)
(* cases): directories become groups, files embedded files, symlinks are    *)
(* ignored; update processes the diff nodes in the order annotate() lists   *)
(* them and treats each node on its own (PackNode) -- it never looks at the *)
(* whole directory again.  That the node-wise treatment reproduces the      *)
(* mirror of the new directory for EVERY pair of snapshots is the design    *)
(* property (UpdateIsMirror); that it writes nothing outside the diff is    *)
(* WritesOnlyDiff; both are what makes incremental updates of immutable     *)
(* patch containers small and correct.                                     *)
(***************************************************************************)
EXTENDS DirDiff

CONSTANTS Snapshots,    \* snapshots the directory may take
          Names,        \* all names, as a sequence in sort order
          Packers,      \* packer plugin names
          InvalidFor(_, _),  \* InvalidFor(pk, t): check_dir of packer pk refuses snapshot t
          Mutant        \* "none", or a deliberately wrong packer TLC must reject (self-test of the properties)

VARIABLES dir, cont, last
pvars == <<dir, cont, last>>

NoCont == [tree |-> {}, src |-> {}, by |-> "", gen |-> 0, wrote |-> {}]

(* what a mirror packer makes of a snapshot: everything but the symlinks *)
Mirror(t) == {e \in t : e.k # "s"}

(* ---- one diff node, treated on its own ---------------------------------------- *)
(* cur: container tree so far; a, b: old and new snapshot; p: path of the node.     *)
(* Deleting a group deletes what is below it (h5py semantics); the order makes      *)
(* sure there is nothing left below by then, which PackSafe checks separately.      *)
Drop(cur, p)  == {e \in cur : ~Under(p, e.p)}
PFAILED       == {[p |-> <<"FAILED">>, k |-> "x", v |-> ""]}

PackNode(cur, a, b, p) ==
    IF cur = PFAILED THEN PFAILED
    ELSE LET st == Status(a, b, p)
             pk == EntryOf(a, p).k
             ck == EntryOf(b, p).k
             add(c) == IF ck = "s" THEN c
                       ELSE IF Has(c, p) \/ ~Has(c, Parent(p)) \/ At(c, Parent(p)).k # "d" THEN PFAILED
                       ELSE c \cup {At(b, p)}
             del(c) == IF pk = "s" /\ Mutant # "symlink_deleted" THEN c
                       ELSE IF ~Has(c, p) THEN PFAILED ELSE Drop(c, p)
         IN
         IF p = <<>> THEN cur                       \* the root exists on both sides
         ELSE IF st = "-" THEN del(cur)
         ELSE IF st = "+" THEN add(cur)
         ELSE IF pk = "d" /\ ck = "d" THEN cur      \* only the contents changed
         ELSE LET c1 == del(cur) IN IF c1 = PFAILED THEN PFAILED ELSE add(c1)

RECURSIVE PackSeq(_, _, _, _, _)
PackSeq(cur, a, b, s, j) ==
    IF j > Len(s) THEN cur ELSE PackSeq(PackNode(cur, a, b, s[j]), a, b, s, j + 1)

NodeOrder(a, b) == LET o == Order(a, b, <<>>, Names) IN
                   IF Mutant = "reversed_order" THEN Reverse(o)
                   ELSE IF Mutant = "parents_first" THEN SortSeq(o, LAMBDA u, w : Len(u) < Len(w))
                   ELSE o
UpdateResult(a, b) == PackSeq(Mirror(a), a, b, NodeOrder(a, b), 1)

(* the paths an update writes to (creates, replaces or deletes) *)
Written(a, b) ==
    {r.p : r \in {x \in Reported(a, b) :
                    /\ x.p # <<>>
                    /\ ~(x.prev.k = "d" /\ x.curr.k = "d")
                    /\ ~(x.prev.k \in {"s", "none"} /\ x.curr.k \in {"s", "none"})}}

(* ---- actions ------------------------------------------------------------------------ *)
Edit(t) ==
    /\ t \in Snapshots /\ t # dir
    /\ dir' = t /\ last' = "-"
    /\ UNCHANGED cont

Pack(pk) ==
    /\ cont = NoCont /\ ~InvalidFor(pk, dir)
    /\ cont' = [tree |-> Mirror(dir), src |-> dir, by |-> pk, gen |-> 1, wrote |-> Paths(Mirror(dir)) \ {<<>>}]
    /\ last' = "ok"
    /\ UNCHANGED dir

PackRejected(pk) ==            \* refused directory, or the target exists already
    /\ cont # NoCont \/ InvalidFor(pk, dir)
    /\ last' = "rejected"
    /\ UNCHANGED <<dir, cont>>

Update(pk) ==
    /\ cont # NoCont /\ cont.by = pk /\ ~InvalidFor(pk, dir)
    /\ cont' = [tree |-> UpdateResult(cont.src, dir), src |-> dir, by |-> pk, gen |-> cont.gen + 1,
                wrote |-> Written(cont.src, dir)]
    /\ last' = "ok"
    /\ UNCHANGED dir

UpdateRejected(pk) ==          \* refused directory, no container, or packed by an incompatible packer
    /\ cont = NoCont \/ cont.by # pk \/ InvalidFor(pk, dir)
    /\ last' = "rejected"
    /\ UNCHANGED <<dir, cont>>

PInit == dir \in Snapshots /\ cont = NoCont /\ last = "-"
PNext == \/ \E t \in Snapshots : Edit(t)
         \/ \E pk \in Packers : Pack(pk) \/ PackRejected(pk) \/ Update(pk) \/ UpdateRejected(pk)
PSpec == PInit /\ [][PNext]_pvars

(* ---- properties -------------------------------------------------------------------- *)
(* the container always mirrors the snapshot it says it was packed from *)
ContainerMirrorsRecordedSource == cont # NoCont => cont.tree = Mirror(cont.src) /\ cont.tree # PFAILED
(* after a successful run the recorded snapshot is the directory as it is now *)
RecordedIsCurrent == last = "ok" => cont.src = dir
(* a refused call changes nothing *)
RejectedChangesNothing == [][last' = "rejected" => cont' = cont]_pvars
(* an update writes only what the diff reports; an update of an unchanged directory writes nothing *)
WritesOnlyDiff ==
    [][(last' = "ok" /\ cont # NoCont) =>
          /\ cont'.wrote \subseteq {r.p : r \in Reported(cont.src, dir)}
          /\ \A e \in cont.tree : (e.p \notin cont'.wrote /\ ~\E w \in cont'.wrote : Under(w, e.p)) => e \in cont'.tree
          /\ (cont.src = dir => cont'.wrote = {})]_pvars
(* everything that differs between old and new mirror was written (or lies below something written) *)
WritesAllOfDiff ==
    [][(last' = "ok" /\ cont # NoCont) =>
          \A p \in Paths(cont.tree) \cup Paths(cont'.tree) :
              EntryOf(cont.tree, p) # EntryOf(cont'.tree, p) => \E w \in cont'.wrote : Under(w, p)]_pvars
(* the design fact behind Update, for every pair of snapshots (not only reachable ones) *)
UpdateIsMirror(a, b) == UpdateResult(a, b) = Mirror(b)
=============================================================================
