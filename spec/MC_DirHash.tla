----------------------------- MODULE MC_DirHash -----------------------------
EXTENDS DirHash
N1 == <<"x", "y">>
N2 == <<"x">>
N2big == <<"x", "y">>
(* raw targets: sibling, the same sibling written differently, parent's entry, parent's "o" (a sibling of the hashed
   directory when the link is at the top level), outside, outside via a longer way *)
RT == {<<"x">>, <<".", "x">>, <<"..", "y">>, <<"..", "o">>, <<"..", "..", "o">>, <<"y", "..", "..", "..", "o">>}
=============================================================================
