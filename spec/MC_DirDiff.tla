----------------------------- MODULE MC_DirDiff -----------------------------
(* One initial state per pair of snapshots over a small name/content universe. *)
EXTENDS DirTrees, Json, IOUtils

VARIABLES a, b
vars == <<a, b>>
Init == a \in Trees /\ b \in Trees
Next == UNCHANGED vars
Spec == Init /\ [][Next]_vars

(* ---- properties of the design (C18) ---- *)
TreesWellFormed == WellFormed(a) /\ WellFormed(b)
EmptyIffEqual   == (Reported(a, b) = {}) <=> (a = b)
RootReported    == (a # b) => \E r \in Reported(a, b) : r.p = <<>>
OrderComplete   == LET s == Order(a, b, <<>>, AllNames) IN
                   a # b => /\ {s[j] : j \in DOMAIN s} = {r.p : r \in Reported(a, b)}
                            /\ Len(s) = Cardinality(Reported(a, b))
OrderSafe       == a # b => Transforms(a, b, Order(a, b, <<>>, AllNames))
(* sanity of the applier itself: a wrong order (children after a removed parent) must fail somewhere *)

Export ==
    /\ TLCGet("stats").generated >= 0
    /\ LET ts == SetToSeq(Trees) n == Len(ts) IN
       JsonSerialize(IOEnv.OUT_FILE,
         [c \in 1..(((n * n - 1) \div Stride) + 1) |->
            LET k == (c - 1) * Stride + 1
                i == ((k - 1) \div n) + 1 j == ((k - 1) % n) + 1 IN
            [a |-> SetToSeq(ts[i]), b |-> SetToSeq(ts[j])]])
N1 == <<"x", "y">>
N2 == <<"x">>
N2big == <<"x", "y">>
=============================================================================
