----------------------------- MODULE MC_DirDiff -----------------------------
(* One initial state per pair of snapshots over a small name/content universe. *)
EXTENDS DirDiff, Json, IOUtils

CONSTANTS Names1,     \* keys usable at depth 1 (as a sequence in alphabetical order)
          Names2,     \* keys usable at depth 2
          Contents,   \* file content tokens
          Targets,    \* symlink targets
          Stride

Leaf      == {[k |-> "f", v |-> c] : c \in Contents} \cup {[k |-> "s", v |-> t] : t \in Targets}
Opt2      == Leaf \cup {[k |-> "d", v |-> ""], NONE}
SeqToSet2(s) == {s[j] : j \in DOMAIN s}
DirBodies == [SeqToSet2(Names2) -> Opt2]
Top       == {[e |-> l, body |-> <<>>] : l \in Leaf \cup {NONE}}
             \cup {[e |-> [k |-> "d", v |-> ""], body |-> bd] : bd \in DirBodies}
Shapes    == [SeqToSet2(Names1) -> Top]

TreeOf(sh) ==
    {Dir(<<>>)}
    \cup {[p |-> <<n>>, k |-> sh[n].e.k, v |-> sh[n].e.v] : n \in {m \in SeqToSet2(Names1) : sh[m].e # NONE}}
    \cup UNION {{[p |-> <<n, m>>, k |-> sh[n].body[m].k, v |-> sh[n].body[m].v]
                    : m \in {x \in SeqToSet2(Names2) : sh[n].body[x] # NONE}}
                : n \in {x \in SeqToSet2(Names1) : sh[x].e.k = "d"}}
Trees == {TreeOf(sh) : sh \in Shapes}

AllNames == Names1 \o SelectSeq(Names2, LAMBDA n : n \notin SeqToSet2(Names1))

VARIABLES a, b
vars == <<a, b>>
Init == a \in Trees /\ b \in Trees
Next == UNCHANGED vars
Spec == Init /\ [][Next]_vars

(* ---- properties of the design (C18) ---- *)
TreesWellFormed == WellFormed(a) /\ WellFormed(b)
EmptyIffEqual   == (Reported(a, b) = {}) <=> (a = b)
RootReported    == (a # b) => \E r \in Reported(a, b) : r.p = <<>>
OrderComplete   == LET s == Order(a, b, <<>>, AllNames) IN
                   a # b => /\ {s[j] : j \in DOMAIN s} = {r.p : r \in Reported(a, b)}
                            /\ Len(s) = Cardinality(Reported(a, b))
OrderSafe       == a # b => Transforms(a, b, Order(a, b, <<>>, AllNames))
(* sanity of the applier itself: a wrong order (children after a removed parent) must fail somewhere *)

Export ==
    /\ TLCGet("stats").generated >= 0
    /\ LET ts == SetToSeq(Trees) n == Len(ts) IN
       JsonSerialize(IOEnv.OUT_FILE,
         [c \in 1..(((n * n - 1) \div Stride) + 1) |->
            LET k == (c - 1) * Stride + 1
                i == ((k - 1) \div n) + 1 j == ((k - 1) % n) + 1 IN
            [a |-> SetToSeq(ts[i]), b |-> SetToSeq(ts[j])]])
N1 == <<"x", "y">>
N2 == <<"x">>
N2big == <<"x", "y">>
=============================================================================
