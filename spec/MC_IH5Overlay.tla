--------------------------- MODULE MC_IH5Overlay ---------------------------
(* Model-checking wrapper for IH5Overlay: bounds and model values.          *)
EXTENDS IH5Overlay
CONSTANTS MaxOps, MaxFiles

Bound ==
    /\ TLCGet("level") <= MaxOps
    /\ Len(files) <= MaxFiles
=============================================================================
