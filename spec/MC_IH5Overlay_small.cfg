SPECIFICATION Spec
CONSTANTS
  Keys = {"a", "b"}
  Vals = {"v1", "v2"}
  AttrKeys = {"k"}
  MaxDepth = 2
  Mutant = "none"
  MaxOps = 4
  MaxFiles = 3
CONSTRAINT Bound
INVARIANT ViewOK
INVARIANT OutcomeOK
INVARIANT RefWellFormed
INVARIANT MergeOK
INVARIANT SkeletonOK
PROPERTY OldFrozen
CHECK_DEADLOCK FALSE
