---------------------------- MODULE MC_Container ----------------------------
(***************************************************************************)
(* The container bookkeeping as the code maintains it, explored by TLC:    *)
(*   - metadata objects with their TOC links, registered on attach,        *)
(*     unregistered on detach/delete, re-registered with fresh uuids on    *)
(*     copy, re-targeted on move;                                          *)
(*   - schema records: created when the first object of a schema appears,  *)
(*     removed with the last one; package records likewise (reference      *)
(*     counting of used schemas per providing package);                    *)
(*   - the in-memory schema index (parent paths / children) maintained     *)
(*     incrementally by _update_parents_children.                          *)
(* Invariants: Container!TOCSync (C06), IndexEqRebuild (C06), Query is     *)
(* what the mechanism of MetadorMeta.query computes (C07), user operations *)
(* act on the user tree exactly as H5Tree (C08/C09 determinism),           *)
(* SelfDescribing (C20).  Mutants replace one bookkeeping rule.            *)
(***************************************************************************)
EXTENDS Container

CONSTANTS Keys, MaxDepth, MaxOps, MaxUuid, Mutant

(* a fixed schema family: a <- b <- c (three levels), d unrelated; two packages *)
RA == <<"a", <<1, 0, 0>>>>
RB == <<"b", <<1, 0, 0>>>>
RC == <<"c", <<0, 2, 0>>>>
RD == <<"d", <<0, 1, 0>>>>
Refs == {RA, RB, RC, RD}
Env == [parents  |-> (RA :> <<RA>>) @@ (RB :> <<RA, RB>>) @@ (RC :> <<RA, RB, RC>>) @@ (RD :> <<RD>>),
        provider |-> (RA :> <<"p1", <<1, 0, 0>>>>) @@ (RB :> <<"p1", <<1, 0, 0>>>>)
                     @@ (RC :> <<"p2", <<0, 3, 1>>>>) @@ (RD :> <<"p2", <<0, 3, 1>>>>)]
PkgOf(r) == [name |-> Env.provider[r][1], ver |-> Env.provider[r][2],
             provides |-> {s \in Refs : Env.provider[s] = Env.provider[r]}]

VARIABLES C,       \* persistent container state
          ix,      \* live index: [parents : ref -> path, children : ref -> set of refs]
          nu       \* uuid counter

vars == <<C, ix, nu>>

AllPaths == UNION {[1..n -> Keys] : n \in 1..MaxDepth}

Init ==
    /\ C = [tree |-> H5!EmptyTree, meta |-> {}, links |-> {}, schemas |-> {}, pkgs |-> {}]
    /\ ix = [parents |-> <<>>, children |-> <<>>]
    /\ nu = 1

(* ---- the in-memory index, as TOCSchemas._update_parents_children does it ---- *)
Dom(f) == DOMAIN f
Upd(f, k, v) == [x \in Dom(f) \cup {k} |-> IF x = k THEN v ELSE f[x]]
Drop(f, S)   == [x \in Dom(f) \ S |-> f[x]]

RECURSIVE IxAddPath(_, _, _, _)
IxAddPath(i, ref, path, j) ==
    IF j > Len(path) THEN i
    ELSE LET p  == path[j]
             i1 == [i EXCEPT !.parents = IF p \in Dom(@) THEN @ ELSE Upd(@, p, SubSeq(path, 1, j)),
                             !.children = IF p \in Dom(@) THEN @ ELSE Upd(@, p, {})]
             i2 == IF p # ref THEN [i1 EXCEPT !.children = Upd(@, p, @[p] \cup {ref})] ELSE i1
         IN IxAddPath(i2, ref, path, j + 1)
IxAdd(i, ref) == IxAddPath(i, ref, Env.parents[ref], 1)

IxRemove(i, ref, used) ==      \* `used`: schemas still in use after the removal
    LET path == SeqToSet(i.parents[ref]) IN
    IF Mutant = "stale_child_entries"
    THEN \* pinned rule: only parents that are themselves in use forget the child
         LET ch == [p \in Dom(i.children) |->
                        IF p \in path /\ p \in used THEN i.children[p] \ {ref} ELSE i.children[p]]
             dead == {p \in path : p \notin used /\ \A c \in ch[p] : c \notin used}
         IN [parents |-> Drop(i.parents, dead), children |-> Drop(ch, dead)]
    ELSE LET ch == [p \in Dom(i.children) |-> IF p \in path THEN i.children[p] \ {ref} ELSE i.children[p]]
             dead == {p \in path : p \notin used /\ ch[p] = {}}
         IN [parents |-> Drop(i.parents, dead), children |-> Drop(ch, dead)]

RECURSIVE RebuildFrom(_, _)
RebuildFrom(i, S) ==
    IF S = {} THEN i ELSE LET r == CHOOSE x \in S : TRUE IN RebuildFrom(IxAdd(i, r), S \ {r})
Rebuild(c) == RebuildFrom([parents |-> <<>>, children |-> <<>>], {s.ref : s \in c.schemas})

(* ---- register / unregister as TOCLinks and TOCSchemas do it ----------------- *)
MetaPath(node, isds, ref, u) == <<node, isds, ref, u>>     \* abstract "path of the stored object"

Register(c, i, m) ==
    LET first == m.schema \notin {s.ref : s \in c.schemas}
        c1 == [c EXCEPT !.meta = @ \cup {m},
                        !.links = @ \cup {[schema |-> m.schema, uuid |-> m.uuid, target |-> m.at]},
                        !.schemas = IF first THEN @ \cup {[ref |-> m.schema, parents |-> Env.parents[m.schema]]} ELSE @,
                        !.pkgs = IF first /\ ~\E p \in @ : m.schema \in p.provides
                                 THEN @ \cup {PkgOf(m.schema)} ELSE @]
    IN [c |-> c1, i |-> IF first THEN IxAdd(i, m.schema) ELSE i]

Unregister(c, i, m) ==
    LET rest == c.meta \ {m}
        last == m.schema \notin {x.schema : x \in rest}
        used == {x.schema : x \in rest}
        c1 == [c EXCEPT !.meta = rest,
                        !.links = IF Mutant = "delete_keeps_links" THEN @ ELSE {l \in @ : l.uuid # m.uuid},
                        !.schemas = IF last /\ Mutant # "schema_record_leak" THEN {s \in @ : s.ref # m.schema} ELSE @,
                        !.pkgs = IF last THEN {p \in @ : p.provides \cap used # {}} ELSE @]
    IN [c |-> c1, i |-> IF last THEN IxRemove(i, m.schema, used) ELSE i]

RECURSIVE UnregisterAll(_, _, _)
UnregisterAll(c, i, M) ==
    IF M = {} THEN [c |-> c, i |-> i]
    ELSE LET m == CHOOSE x \in M : TRUE r == Unregister(c, i, m) IN UnregisterAll(r.c, r.i, M \ {m})

RECURSIVE RegisterAll(_, _, _)
RegisterAll(c, i, M) ==
    IF M = {} THEN [c |-> c, i |-> i]
    ELSE LET m == CHOOSE x \in M : TRUE r == Register(c, i, m) IN RegisterAll(r.c, r.i, M \ {m})

NewMeta(node, isds, ref, u, content) ==
    [node |-> node, isds |-> isds, schema |-> ref, uuid |-> u, content |-> content,
     at |-> MetaPath(node, isds, ref, u)]

(* ---- actions ------------------------------------------------------------------ *)
Attach ==
    \E p \in H5!Paths(C.tree), r \in Refs :
      /\ ~\E m \in C.meta : m.node = p /\ m.schema[1] = r[1]
      /\ LET m == NewMeta(p, H5!IsData(C.tree, p), r, nu, nu) res == Register(C, ix, m) IN
         C' = res.c /\ ix' = res.i
      /\ nu' = nu + 1

Detach ==
    \E m \in C.meta :
      /\ LET res == Unregister(C, ix, m) IN C' = res.c /\ ix' = res.i
      /\ UNCHANGED nu

TreeCreate ==
    \E p \in AllPaths, k \in {"g", "d"} :
      LET r == IF k = "g" THEN H5!CreateGroup(C.tree, p) ELSE H5!SetDataset(C.tree, p, "v") IN
      /\ r.ok
      /\ C' = [C EXCEPT !.tree = r.t]
      /\ UNCHANGED <<ix, nu>>

Delete ==
    \E p \in AllPaths :
      /\ H5!Has(C.tree, p)
      /\ LET res == UnregisterAll(C, ix, {m \in C.meta : H5!Under(p, m.node)}) IN
         /\ C' = [res.c EXCEPT !.tree = H5!Delete(C.tree, p).t]
         /\ ix' = res.i
      /\ UNCHANGED nu

Rekey(M, base) ==   \* fresh uuids nu, nu+1, ... for the objects in M (any fixed order)
    LET s == SetToSeq(M) IN
    {NewMeta(s[j].node, s[j].isds, s[j].schema,
             IF Mutant = "copy_keeps_uuids" THEN s[j].uuid ELSE base + j - 1, s[j].content) : j \in DOMAIN s}

Copy ==
    \E p \in AllPaths, q \in AllPaths, withmeta \in BOOLEAN :
      LET r == H5!Copy(C.tree, p, q) IN
      /\ r.ok /\ ~H5!Under(p, q)
      /\ LET src == {m \in C.meta : H5!Under(p, m.node)}
             cp  == {[m EXCEPT !.node = H5!Rebase(m.node, p, q)] : m \in src}
             new == IF withmeta THEN Rekey(cp, nu) ELSE {}
             res == RegisterAll([C EXCEPT !.tree = r.t], ix, new)
         IN C' = res.c /\ ix' = res.i /\ nu' = nu + Cardinality(src)

Move ==
    \E p \in AllPaths, q \in AllPaths :
      LET r == H5!Move(C.tree, p, q) IN
      /\ r.ok
      /\ LET mv(m) == IF H5!Under(p, m.node)
                      THEN NewMeta(H5!Rebase(m.node, p, q), m.isds, m.schema, m.uuid, m.content) ELSE m
             meta1 == {mv(m) : m \in C.meta}
         IN C' = [C EXCEPT !.tree = r.t, !.meta = meta1,
                           !.links = IF Mutant = "move_does_not_relink" THEN @
                                     ELSE {[schema |-> m.schema, uuid |-> m.uuid, target |-> m.at] : m \in meta1}]
      /\ UNCHANGED <<ix, nu>>

Next == Attach \/ Detach \/ TreeCreate \/ Delete \/ Copy \/ Move
Spec == Init /\ [][Next]_vars

Bound == TLCGet("level") <= MaxOps /\ nu <= MaxUuid

(* ---- properties ------------------------------------------------------------------ *)
TocSyncInv      == TOCSync(C, Env)                                            \* C06
IndexEqRebuild  == ix = Rebuild(C)                                            \* C06
SelfDescribingInv == SelfDescribing(C, Env)                                   \* C20
TreeWellFormed  == H5!WellFormed(C.tree)                                      \* C08

(* C07: the mechanism of MetadorMeta.query (exact schema, else children of the  *)
(* versions of the requested name known to the live index, intersected with the *)
(* objects at the node) finds exactly the nodes of the declarative Query         *)
IndexVersions(s, v) == {r \in Dom(ix.children) : r[1] = s /\ (v = <<>> \/ Supports(<<s, v>>, r))}
NodeHas(n, s, v) ==
    \/ \E m \in C.meta : m.node = n /\ m.schema[1] = s /\ (v = <<>> \/ Supports(<<s, v>>, m.schema))
    \/ \E m \in C.meta : m.node = n /\ m.schema \in UNION {ix.children[r] : r \in IndexVersions(s, v)}
QueryMechanism(start, s, v) == {n \in H5!Paths(C.tree) : H5!Under(start, n) /\ NodeHas(n, s, v)}
QueryExact ==
    \A start \in H5!Paths(C.tree), s \in {"a", "b", "c", "d"}, v \in {<<>>, <<1, 0, 0>>, <<1, 1, 0>>, <<0, 2, 0>>, <<0, 1, 0>>, <<2, 0, 0>>} :
        QueryMechanism(start, s, v) = Query(C, start, s, v, Env)
=============================================================================
