------------------------ MODULE PluginOrderUnbounded ------------------------
(***************************************************************************)
(* C16, unbounded part: the order and `supports` laws of PluginOrder for   *)
(* ALL natural group / name codes and version components, discharged by    *)
(* Apalache (SMT) instead of enumerated by TLC over 0..2.                  *)
(* The three references are arbitrary (Init constrains them to naturals    *)
(* only); the laws are state invariants of the initial states, so          *)
(*   apalache-mc check --length=0 --inv=Laws PluginOrderUnbounded.tla      *)
(* proves them for every triple of references.                             *)
(* The definitions are the ones of PluginOrder, with type annotations.     *)
(***************************************************************************)
EXTENDS Integers

VARIABLES
    \* @type: <<Int, Int, <<Int, Int, Int>>>>;
    a,
    \* @type: <<Int, Int, <<Int, Int, Int>>>>;
    b,
    \* @type: <<Int, Int, <<Int, Int, Int>>>>;
    c

\* @type: (<<Int, Int, Int>>, <<Int, Int, Int>>) => Bool;
VerLt(v, w) ==
    \/ v[1] < w[1]
    \/ v[1] = w[1] /\ v[2] < w[2]
    \/ v[1] = w[1] /\ v[2] = w[2] /\ v[3] < w[3]

\* @type: (<<Int, Int, <<Int, Int, Int>>>>, <<Int, Int, <<Int, Int, Int>>>>) => Bool;
Lt(x, y) ==
    \/ x[1] < y[1]
    \/ x[1] = y[1] /\ x[2] < y[2]
    \/ x[1] = y[1] /\ x[2] = y[2] /\ VerLt(x[3], y[3])
\* @type: (<<Int, Int, <<Int, Int, Int>>>>, <<Int, Int, <<Int, Int, Int>>>>) => Bool;
Leq(x, y) == x = y \/ Lt(x, y)

\* @type: (<<Int, Int, <<Int, Int, Int>>>>, <<Int, Int, <<Int, Int, Int>>>>) => Bool;
Supports(x, y) ==
    /\ x[1] = y[1] /\ x[2] = y[2]
    /\ x[3][1] = y[3][1]
    /\ x[3][2] >= y[3][2]

\* @type: (<<Int, Int, <<Int, Int, Int>>>>) => Bool;
IsRef(x) == x[1] \in Nat /\ x[2] \in Nat /\ x[3][1] \in Nat /\ x[3][2] \in Nat /\ x[3][3] \in Nat

Init ==
    /\ a \in Int \X Int \X (Int \X Int \X Int)
    /\ b \in Int \X Int \X (Int \X Int \X Int)
    /\ c \in Int \X Int \X (Int \X Int \X Int)
    /\ IsRef(a) /\ IsRef(b) /\ IsRef(c)
Next == UNCHANGED <<a, b, c>>

Laws ==
    /\ Leq(a, a) /\ ~Lt(a, a)                                   \* reflexive / irreflexive
    /\ (Leq(a, b) /\ Leq(b, a)) => a = b                        \* antisymmetric
    /\ Leq(a, b) \/ Leq(b, a)                                   \* total
    /\ (Leq(a, b) /\ Leq(b, c)) => Leq(a, c)                    \* transitive
    /\ (Lt(a, b) /\ a # b /\ ~Lt(b, a)) \/ (~Lt(a, b) /\ a = b /\ ~Lt(b, a)) \/ (~Lt(a, b) /\ a # b /\ Lt(b, a))   \* trichotomy
    /\ Supports(a, a)
    /\ (Supports(a, b) /\ Supports(b, a)) => (a[3][1] = b[3][1] /\ a[3][2] = b[3][2])
    /\ (Supports(a, b) /\ Supports(b, c)) => Supports(a, c)
    \* a request is supported by everything of the same major that is not older in (minor):
    \* resolving to the newest supporting version is well defined
    /\ (Supports(a, c) /\ Supports(b, c)) => (Leq(a, b) \/ Leq(b, a))
    /\ (Supports(a, c) /\ Leq(a, b) /\ b[1] = a[1] /\ b[2] = a[2] /\ b[3][1] = a[3][1]) => Supports(b, c)

(* not a law (supports is not symmetric): the harness checks that Apalache rejects it, *)
(* so that "NoError" above is not an artefact of an over-constrained Init             *)
NotALaw == Supports(a, b) => Supports(b, a)
=============================================================================
