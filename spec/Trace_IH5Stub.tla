---------------------------- MODULE Trace_IH5Stub ----------------------------
(***************************************************************************)
(* Trace validation for C10: manifests, stubs and patches built on stubs.  *)
(* Events (all carry dview = the tree of the directly patched real record):*)
(*  mf_commit    after each commit of the real IH5MFRecord: manifest facts *)
(*               read from the sidecar bytes + user block, tree, override  *)
(*  stub_created sview = tree of the stub, merge_refused                   *)
(*  patch_op     one existence-based update applied to the real record and *)
(*               to the stub in lock step: ok_direct, ok_stub, dview, sview*)
(*  combined     the stub's patch container appended to the real files     *)
(***************************************************************************)
EXTENDS Naturals, Sequences, FiniteSets, SequencesExt, TLC, Json, IOUtils

Traces == JsonDeserialize(IOEnv.TRACE_FILE)
H5 == INSTANCE H5Tree
OV == INSTANCE IH5Ops WITH Mutant <- "none"

VARIABLES tid, i, bad, exts
vars == <<tid, i, bad, exts>>

SeqToSet(s) == {s[j] : j \in DOMAIN s}
TreeOf(v)   == SeqToSet(v)
Skel(t)     == OV!Skeleton(t)
MfSkel(s)   == {[p |-> x.p, k |-> x.k, a |-> SeqToSet(x.a)] : x \in SeqToSet(s)}

Clauses(T, j, ex) ==
    LET e == T[j] pre == T[j - 1] IN
    CASE e.op = "mf_commit" ->
           (IF ~e.mf.exists \/ e.mf.dig # e.mf.ub_mfh \/ e.mf.uuid # e.mf.ub_mfu
            THEN {"manifest_matches_ublock"} ELSE {})
           \cup (IF e.mf.exists /\ MfSkel(e.mf.skel) # Skel(TreeOf(e.dview))
                 THEN {"manifest_skeleton_current"} ELSE {})
           \cup (IF e.mf.exists /\ e.mf.exts # (IF e.override # "" THEN e.override ELSE ex)
                 THEN {"manifest_exts_persist"} ELSE {})
      [] e.op = "stub_created" ->
           (IF ~e.ok THEN {"stub_can_be_created"} ELSE {})
           \cup (IF e.ok /\ Skel(TreeOf(e.sview)) # Skel(TreeOf(e.dview))
                 THEN {"stub_skeleton_eq_real"} ELSE {})
           \cup (IF e.ok /\ \E n \in TreeOf(e.sview) :
                        (n.k = "d" /\ n.v # "EMPTY") \/ \E x \in DOMAIN n.a : n.a[x] # "EMPTY"
                 THEN {"stub_has_no_data"} ELSE {})
           \cup (IF e.ok /\ ~e.merge_refused THEN {"stub_not_mergeable"} ELSE {})
      [] e.op = "patch_op" ->
           LET R == H5!Apply(TreeOf(pre.dview), e.e) IN
           (IF e.ok_direct # R.ok \/ TreeOf(e.dview) # R.t THEN {"direct_patch_follows_reference"} ELSE {})
           \cup (IF e.ok_stub # R.ok THEN {"stub_same_outcome"} ELSE {})
           \cup (IF Skel(TreeOf(e.sview)) # Skel(R.t) THEN {"stub_view_skeleton_tracks"} ELSE {})
      [] e.op = "combined" ->
           (IF ~e.ok THEN {"stub_patch_accepted_by_real_record"} ELSE {})
           \cup (IF e.ok /\ TreeOf(e.cview) # TreeOf(e.dview) THEN {"stub_patch_eq_direct_patch"} ELSE {})
      [] OTHER -> {}

Init == tid \in 1..Len(Traces) /\ i = 1 /\ bad = {} /\ exts = "{}"

Step ==
    /\ i < Len(Traces[tid])
    /\ LET T == Traces[tid] e == T[i + 1] IN
       /\ bad' = bad \cup {<<i + 1, c>> : c \in Clauses(T, i + 1, exts)}
       /\ exts' = IF e.op = "mf_commit" /\ e.override # "" THEN e.override ELSE exts
    /\ i' = i + 1
    /\ UNCHANGED tid

Done ==
    /\ i = Len(Traces[tid])
    /\ TLCSet(tid, bad)
    /\ i' = i + 1
    /\ UNCHANGED <<tid, bad, exts>>

TraceSpec == Init /\ [][Step \/ Done]_vars

WriteVerdicts ==
    JsonSerialize(IOEnv.OUT_FILE, [t \in 1..Len(Traces) |-> SetToSeq(TLCGet(t))])
=============================================================================
