------------------------------- MODULE IH5Ops -------------------------------
(***************************************************************************)
(* The IH5 overlay design (src/metador_core/ih5/PATCH_THEORY.md and        *)
(* overlay.py), written to be bound to the code:                           *)
(*                                                                         *)
(*  - a record is a sequence `files` of raw containers (base + patches);   *)
(*  - a raw container is a set of raw nodes [p, k, v, a] with              *)
(*        k = "g"  plain HDF5 group  = *virtual* node (transparent carrier)*)
(*        k = "s"  group carrying the SUBST marker attribute (overwrites)  *)
(*        k = "d"  dataset with value v                                    *)
(*        k = "x"  dataset holding the deletion marker                     *)
(*    and a : attribute key -> value token or DEL;                         *)
(*  - the READ path View(files) (creation indices, virtual sightings       *)
(*    extend downwards until the first non-virtual sighting);              *)
(*  - the WRITE path, one operator per public mutating method of           *)
(*    IH5Group / IH5AttributeManager, defined step by step as the code     *)
(*    does it on the newest container with raw h5py operations.            *)
(*                                                                         *)
(* The reference machine is H5Tree.  The refinement invariant is           *)
(*        View(files) = ref   /\  every operation succeeds iff it would    *)
(*                                succeed on the single tree.              *)
(*                                                                         *)
(* Mutant switches replace one rule by a plausible wrong one (among them   *)
(* the two rules of the pinned upstream code that were repaired).          *)
(***************************************************************************)
EXTENDS Naturals, Sequences, FiniteSets, SequencesExt, FiniteSetsExt, TLC

CONSTANTS Mutant      \* "none" or the name of a wrong rule

H5 == INSTANCE H5Tree

DEL == "DEL"

-----------------------------------------------------------------------------
(* Raw containers and raw (single-file h5py) operations                     *)

RawGroup(p, kind) == [p |-> p, k |-> kind, v |-> "", a |-> <<>>]
RawData(p, val)   == [p |-> p, k |-> IF val = DEL THEN "x" ELSE "d",
                      v |-> IF val = DEL THEN "" ELSE val, a |-> <<>>]
EmptyContainer    == {RawGroup(<<>>, "g")}

RawPaths(c)  == {n.p : n \in c}
RawHas(c, p) == p \in RawPaths(c)
RawAt(c, p)  == CHOOSE n \in c : n.p = p
RawIsGroup(c, p) == RawHas(c, p) /\ RawAt(c, p).k \in {"g", "s"}

ProperPrefixes(p) == H5!ProperPrefixes(p)
Under(p, q)       == IsPrefix(p, q)
Parent(p)         == SubSeq(p, 1, Len(p) - 1)

(* h5py can create p in c: fresh, and every existing proper prefix is a group *)
RawCanCreate(c, p) ==
    /\ p # <<>>
    /\ ~RawHas(c, p)
    /\ \A q \in ProperPrefixes(p) : RawHas(c, q) => RawIsGroup(c, q)

RawWithAncestors(c, p) ==
    c \cup {RawGroup(q, "g") : q \in ProperPrefixes(p) \ RawPaths(c)}

RawCreate(c, n) == RawWithAncestors(c, n.p) \cup {n}
RawDelete(c, p) == {n \in c : ~Under(p, n.p)}
RawReplace(c, n) == {m \in c : m.p # n.p} \cup {n}

RawSetAttr(c, p, key, val) ==
    LET n == RawAt(c, p) IN
    RawReplace(c, [n EXCEPT !.a = [x \in (DOMAIN n.a) \cup {key} |->
                                      IF x = key THEN val ELSE n.a[x]]])
RawDelAttr(c, p, key) ==
    LET n == RawAt(c, p) IN
    RawReplace(c, [n EXCEPT !.a = [x \in (DOMAIN n.a) \ {key} |-> n.a[x]]])

-----------------------------------------------------------------------------
(* READ path                                                                *)

LastC(files)     == files[Len(files)]
Patching(files) == Len(files) > 1

Sightings(files, p, lo) == {i \in lo..Len(files) : RawHas(files[i], p)}
KindAt(files, i, p)     == RawAt(files[i], p).k

(* Creation index of the node at path p whose parent group has creation    *)
(* index lo; 0 means "does not exist".                                      *)
Cidx(files, p, lo) ==
    LET S == Sightings(files, p, lo) IN
    IF S = {} THEN 0
    ELSE LET top == Max(S) IN
         IF KindAt(files, top, p) = "x" THEN 0
         ELSE IF KindAt(files, top, p) # "g" THEN top
         ELSE IF Mutant = "children_sticky_virtual"
              THEN \* pinned overlay.py: the bound keeps sinking through every
                   \* older sighting because the flag of the newest one sticks
                   IF KindAt(files, Min(S), p) = "x" THEN 0 ELSE Min(S)
         ELSE LET NV == {i \in S : KindAt(files, i, p) # "g"} IN
              IF NV = {} THEN Min(S)
              ELSE LET b == Max(NV) IN
                   \* PATCH_THEORY: "the most recently created or overwritten
                   \* non-virtual node (unless it is a deletion marker)"
                   IF KindAt(files, b, p) = "x" THEN 0 ELSE b

(* attribute sets are "open towards the future" from the creation index     *)
AttrsAt(files, p, c) ==
    LET S    == Sightings(files, p, c)
        keys == UNION {DOMAIN RawAt(files[i], p).a : i \in S}
        newest(key) == Max({i \in S : key \in DOMAIN RawAt(files[i], p).a})
        live == {key \in keys : RawAt(files[newest(key)], p).a[key] # DEL}
    IN [key \in live |-> RawAt(files[newest(key)], p).a[key]]

AttrIdx(files, p, c, key) ==
    Max({i \in Sightings(files, p, c) : key \in DOMAIN RawAt(files[i], p).a})

ChildKeys(files, p, c) ==
    {n.p[Len(n.p)] : n \in UNION {{m \in files[i] : Len(m.p) = Len(p) + 1 /\ Under(p, m.p)}
                                   : i \in c..Len(files)}}

RECURSIVE ViewAt(_, _, _)
ViewAt(files, p, c) ==
    LET raw  == RawAt(files[c], p)
        node == [p |-> p,
                 k |-> IF raw.k = "d" THEN "d" ELSE "g",
                 v |-> IF raw.k = "d" THEN raw.v ELSE "",
                 a |-> AttrsAt(files, p, c)]
    IN IF raw.k = "d" THEN {node}
       ELSE {node} \cup UNION {
              LET q == Append(p, key) cc == Cidx(files, q, c) IN
              IF cc = 0 THEN {} ELSE ViewAt(files, q, cc)
              : key \in ChildKeys(files, p, c)}

View(files) == ViewAt(files, <<>>, 1)

(* creation index of an existing path, following the chain from the root   *)
RECURSIVE CidxChain(_, _, _, _)
CidxChain(files, p, i, c) ==
    IF i = Len(p) THEN c
    ELSE CidxChain(files, p, i + 1, Cidx(files, SubSeq(p, 1, i + 1), c))
CidxOf(files, p) == CidxChain(files, p, 0, 1)

-----------------------------------------------------------------------------
(* WRITE path.  Every operator returns [ok |-> BOOLEAN, f |-> files'].      *)
(* `ok` is FALSE when the code raises: either a check against the view      *)
(* fails or a raw h5py operation on the newest container fails.             *)

WFail(files) == [ok |-> FALSE, f |-> files]
WOk(files, c) == [ok |-> TRUE, f |-> [files EXCEPT ![Len(files)] = c]]

GroupKind(files) == IF Patching(files) /\ Mutant # "no_subst" THEN "s" ELSE "g"

(* create_group for a path whose parent exists in the view (one missing     *)
(* segment): drop a deletion marker in the newest container, create, mark.  *)
WCreateGroup1(files, p) ==
    LET last  == LastC(files)
        last1 == IF RawHas(last, p) /\ RawAt(last, p).k = "x"
                 THEN RawDelete(last, p) ELSE last
    IN IF RawCanCreate(last1, p)
       THEN WOk(files, RawCreate(last1, RawGroup(p, GroupKind(files))))
       ELSE WFail(files)

FirstMissing(view, p) ==
    CHOOSE q \in (ProperPrefixes(p) \cup {p}) \ H5!Paths(view) :
        \A r \in (ProperPrefixes(p) \cup {p}) \ H5!Paths(view) : Len(q) <= Len(r)

(* IH5Group.create_group: the first missing ancestor becomes an overwrite   *)
(* group, deeper ones are plain groups inside it, the target is marked.     *)
WCreateGroup(files, p) ==
    LET view == View(files) IN
    IF ~H5!CanCreate(view, p) THEN WFail(files)
    ELSE IF Mutant = "create_group_plain_ancestors"
    THEN \* pinned overlay.py: only the target itself is marked, missing
         \* ancestors are created as plain (virtual) groups
         LET last  == LastC(files)
             last1 == IF RawHas(last, p) /\ RawAt(last, p).k = "x"
                      THEN RawDelete(last, p) ELSE last
         IN IF RawCanCreate(last1, p)
            THEN WOk(files, RawCreate(last1, RawGroup(p, GroupKind(files))))
            ELSE WFail(files)
    ELSE LET q  == FirstMissing(view, p)
             r1 == WCreateGroup1(files, q)
         IN IF q = p \/ ~r1.ok THEN r1
            ELSE LET c == LastC(r1.f) IN
                 IF RawCanCreate(c, p)
                 THEN WOk(r1.f, RawCreate(c, RawGroup(p, GroupKind(files))))
                 ELSE WFail(files)

(* IH5Group._create_virtual(p) for a path that is not in the view           *)
WCreateVirtual(files, p) ==
    LET view == View(files)
        q    == FirstMissing(view, p)
        r1   == WCreateGroup1(files, q)
    IN IF q = p \/ ~r1.ok THEN r1
       ELSE LET c == LastC(r1.f) IN
            IF RawCanCreate(c, p) THEN WOk(r1.f, RawCreate(c, RawGroup(p, "g")))
            ELSE WFail(files)

(* IH5Group.create_dataset / __setitem__                                    *)
WSetDataset(files, p, val) ==
    LET view == View(files) last == LastC(files) IN
    IF ~H5!CanCreate(view, p) THEN WFail(files)
    ELSE IF RawHas(last, p) /\ RawAt(last, p).k = "x"
    THEN LET c == RawDelete(last, p) IN
         IF RawCanCreate(c, p) THEN WOk(files, RawCreate(c, RawData(p, val)))
         ELSE WFail(files)
    ELSE IF ~RawHas(last, p)
    THEN LET r1 == WCreateVirtual(files, p) IN
         IF ~r1.ok \/ ~RawHas(LastC(r1.f), p) THEN WFail(files)
         ELSE LET c == RawDelete(LastC(r1.f), p) IN
              IF RawCanCreate(c, p) THEN WOk(r1.f, RawCreate(c, RawData(p, val)))
              ELSE WFail(files)
    ELSE WFail(files)    \* something un-deleted is in the way: h5py refuses

(* IH5Group.__delitem__                                                     *)
WDelete(files, p) ==
    LET view == View(files) last == LastC(files) IN
    IF p = <<>> \/ ~H5!Has(view, p) THEN WFail(files)
    ELSE LET c1 == IF RawHas(last, p) THEN RawDelete(last, p) ELSE last IN
         IF ~Patching(files) \/ (Mutant = "no_del_marker" /\ RawHas(last, p))
         THEN WOk(files, c1)
         ELSE IF RawCanCreate(c1, p) THEN WOk(files, RawCreate(c1, RawData(p, DEL)))
              ELSE WFail(files)

(* make sure a carrier for attributes exists at p in the newest container   *)
WithCarrier(c, p) == IF RawHas(c, p) THEN c ELSE RawCreate(c, RawGroup(p, "g"))
CarrierOk(c, p)   == RawHas(c, p) \/ RawCanCreate(c, p)

(* IH5AttributeManager.__setitem__                                          *)
WSetAttr(files, p, key, val) ==
    LET view == View(files) last == LastC(files) IN
    IF ~H5!Has(view, p) \/ ~CarrierOk(last, p) THEN WFail(files)
    ELSE WOk(files, RawSetAttr(WithCarrier(last, p), p, key, val))

(* IH5AttributeManager.__delitem__                                          *)
WDelAttr(files, p, key) ==
    LET view == View(files) last == LastC(files) IN
    IF ~H5!Has(view, p) \/ key \notin DOMAIN H5!NodeAt(view, p).a THEN WFail(files)
    ELSE LET inLast == AttrIdx(files, p, CidxOf(files, p), key) = Len(files)
             c1 == IF inLast THEN RawDelAttr(last, p, key) ELSE last
         IN IF ~Patching(files) THEN WOk(files, c1)
            ELSE IF ~CarrierOk(c1, p) THEN WFail(files)
            ELSE WOk(files, RawSetAttr(WithCarrier(c1, p), p, key, DEL))

(* require_group as used by copy for the destination's parent               *)
WRequireGroup(files, p) ==
    LET view == View(files) IN
    IF H5!IsGroup(view, p) THEN [ok |-> TRUE, f |-> files]
    ELSE IF H5!Has(view, p) THEN WFail(files)
    ELSE WCreateGroup(files, p)

(* write one node of a snapshot (create + its attributes)                   *)
RECURSIVE WAttrs(_, _, _, _)
WAttrs(r, p, a, keys) ==
    IF keys = {} \/ ~r.ok THEN r
    ELSE LET key == CHOOSE x \in keys : TRUE IN
         WAttrs(WSetAttr(r.f, p, key, a[key]), p, a, keys \ {key})

WNode(r, n) ==
    IF ~r.ok THEN r
    ELSE WAttrs(IF n.k = "d" THEN WSetDataset(r.f, n.p, n.v) ELSE WCreateGroup(r.f, n.p),
                n.p, n.a, DOMAIN n.a)

RECURSIVE WNodes(_, _)
WNodes(r, S) ==
    IF S = {} \/ ~r.ok THEN r
    ELSE LET n == CHOOSE x \in S : \A y \in S : Len(x.p) <= Len(y.p) IN
         WNodes(WNode(r, n), S \ {n})

(* IH5Group.copy(str, str): the source listing is taken before the first    *)
(* write (snapshot), the destination's parent is required as a group, the   *)
(* destination must be fresh.                                               *)
WCopy(files, src, dst) ==
    LET view == View(files) IN
    IF src = <<>> \/ ~H5!Has(view, src) \/ ~H5!CanCreate(view, dst) THEN WFail(files)
    ELSE LET snap == {[n EXCEPT !.p = H5!Rebase(n.p, src, dst)] : n \in H5!Subtree(view, src)}
             r0   == IF Len(dst) > 1 THEN WRequireGroup(files, Parent(dst))
                     ELSE [ok |-> TRUE, f |-> files]
             r1   == WNodes(r0, snap)
         IN IF r1.ok THEN r1 ELSE WFail(files)

(* IH5Group.move = copy, then delete the source                             *)
WMove(files, src, dst) ==
    IF Under(src, dst) THEN WFail(files)    \* excluded (no reference behaviour)
    ELSE LET r1 == WCopy(files, src, dst) IN
         IF ~r1.ok THEN WFail(files)
         ELSE LET r2 == WDelete(r1.f, src) IN IF r2.ok THEN r2 ELSE WFail(files)

(* IH5Dataset.__setitem__ (element write): passed through to the newest         *)
(* container, refused unless the dataset lives there                             *)
WSetElem(files, p, k, b) ==
    LET view == View(files) last == LastC(files) IN
    IF ~H5!IsData(view, p) \/ ~H5!IsArr(H5!NodeAt(view, p).v) \/ k \notin 0..2 \/ b \notin 0..1
       \/ CidxOf(files, p) # Len(files)
    THEN WFail(files)
    ELSE WOk(files, RawReplace(last, [RawAt(last, p) EXCEPT !.v = H5!ElemSet(@, k, b)]))

(* IH5Dataset.copy_into_patch: files[-1][path] = self[()]                         *)
WCopyIntoPatch(files, p) ==
    LET view == View(files) last == LastC(files) IN
    IF ~H5!IsData(view, p) \/ CidxOf(files, p) = Len(files) \/ ~RawCanCreate(last, p)
    THEN WFail(files)
    ELSE WOk(files, RawCreate(last, RawData(p, H5!NodeAt(view, p).v)))

PatchAwareOps == {"set_elem", "copy_into_patch"}

Write(files, e) ==
    CASE e.op = "create_group"  -> WCreateGroup(files, e.p)
      [] e.op = "set_elem"      -> WSetElem(files, e.p, e.k, e.b)
      [] e.op = "copy_into_patch" -> WCopyIntoPatch(files, e.p)
      [] e.op = "set_dataset"   -> WSetDataset(files, e.p, e.v)
      [] e.op = "delete"        -> WDelete(files, e.p)
      [] e.op = "set_attr"      -> WSetAttr(files, e.p, e.key, e.v)
      [] e.op = "del_attr"      -> WDelAttr(files, e.p, e.key)
      [] e.op = "copy"          -> WCopy(files, e.p, e.q)
      [] e.op = "move"          -> WMove(files, e.p, e.q)
      [] e.op = "require_group" -> WRequireGroup(files, e.p)
      [] OTHER                  -> [ok |-> TRUE, f |-> files]

(* merge_files: the overlay view materialised as one base container         *)
ToRaw(view) == {[p |-> n.p, k |-> n.k, v |-> n.v, a |-> n.a] : n \in view}
Merged(files) == <<ToRaw(View(files))>>

(* create_stub: same paths, kinds and attribute names, placeholder values   *)
STUB == "STUB"
StubOf(files) ==
    <<{[p |-> n.p, k |-> n.k, v |-> IF n.k = "d" THEN STUB ELSE "",
        a |-> [x \in DOMAIN n.a |-> STUB]] : n \in View(files)}>>
Skeleton(view) == {[p |-> n.p, k |-> n.k, a |-> DOMAIN n.a] : n \in view}

=============================================================================
