---------------------------- MODULE SchemaSubtype ----------------------------
(***************************************************************************)
(* C13: every child-schema instance is a valid parent-schema instance.     *)
(*                                                                         *)
(* Field types over a grammar (strict primitives, a constrained string,    *)
(* Literals, nested schemas in an inheritance chain; Optional, Union,      *)
(* List, Set), a boundary value corpus, and Accepts(type, value) -- what a *)
(* field of that type admits.  Sub(c, p) is the semantic subtype relation  *)
(* "everything c admits, p admits".  StructSub is a structural rule in the *)
(* spirit of the documented guidance (remove alternatives from a Union,    *)
(* use a subclass / narrower Literal); TLC checks it is sound w.r.t. Sub   *)
(* for all ordered pairs.  The pairs are exported with Sub and a witness;  *)
(* the harness (a) binds Accepts to real pydantic verdicts and (b) checks  *)
(* that an override accepted without declaration always satisfies Sub.     *)
(***************************************************************************)
EXTENDS Naturals, Sequences, FiniteSets, SequencesExt, TLC, Json, IOUtils

CONSTANTS Stride

Prims == {"bool", "int", "float", "str", "nestr", "litA", "litAB", "nestA", "nestB"}
Hashable == Prims \ {"nestA", "nestB"}

T(c, a, b) == [c |-> c, a |-> a, b |-> b]
Types ==
    {T("prim", p, "") : p \in Prims}
    \cup {T("opt", p, "") : p \in Prims}
    \cup {T("list", p, "") : p \in Prims}
    \cup {T("set", p, "") : p \in Hashable}
    \cup {T("union", pq[1], pq[2]) : pq \in {x \in Prims \X Prims : x[1] # x[2]}}

(* ---- the corpus: atoms, and containers of atoms ---------------------------------- *)
Atoms == {"none", "true", "0", "1", "1.5", "empty", "blank", "a", "b", "x",
          "objI", "objS", "objIW", "objIWbad"}
  \* objI = {v: 1}; objS = {v: "x"}; objIW = {v: 1, w: 2}; objIWbad = {v: 1, w: "x"}
V(k, s) == [k |-> k, v |-> s]
Corpus == {V("atom", <<a>>) : a \in Atoms}
          \cup {V("list", <<>>)} \cup {V("list", <<a>>) : a \in Atoms \ {"none"}}
          \cup {V("list", <<"a", "x">>), V("list", <<"0", "a">>), V("list", <<"1", "1.5">>)}
          \cup {V("set", <<>>)} \cup {V("set", <<a>>) : a \in {"true", "0", "1.5", "a", "b", "x"}}

AcceptsAtom(p, a) ==
    CASE p = "bool"  -> a = "true"
      [] p = "int"   -> a \in {"0", "1"}
      [] p = "float" -> a = "1.5"
      [] p = "str"   -> a \in {"a", "b", "x"}            \* the schema base config rejects empty/blank strings
      [] p = "nestr" -> a \in {"a", "b", "x"}
      [] p = "litA"  -> a = "a"
      [] p = "litAB" -> a \in {"a", "b"}
      [] p = "nestA" -> a \in {"objI", "objIW", "objIWbad"}      \* v: int, extra fields allowed
      [] p = "nestB" -> a \in {"objI", "objIW"}                  \* NestB(NestA) adds w: Optional[int]

Accepts(t, val) ==
    CASE t.c = "prim"  -> val.k = "atom" /\ AcceptsAtom(t.a, val.v[1])
      [] t.c = "opt"   -> val.k = "atom" /\ (val.v[1] = "none" \/ AcceptsAtom(t.a, val.v[1]))
      [] t.c = "union" -> val.k = "atom" /\ (AcceptsAtom(t.a, val.v[1]) \/ AcceptsAtom(t.b, val.v[1]))
      \* pydantic converts between the collection kinds, the elements decide
      [] t.c = "list"  -> val.k \in {"list", "set"} /\ \A j \in DOMAIN val.v : AcceptsAtom(t.a, val.v[j])
      [] t.c = "set"   -> val.k \in {"list", "set"} /\ \A j \in DOMAIN val.v : AcceptsAtom(t.a, val.v[j])

Sub(c, p) == \A val \in Corpus : Accepts(c, val) => Accepts(p, val)
Witnesses(c, p) == {val \in Corpus : Accepts(c, val) /\ ~Accepts(p, val)}

(* ---- a structural rule and its soundness ------------------------------------------- *)
PrimSub(a, b) ==
    \/ a = b
    \/ <<a, b>> \in {<<"litA", "litAB">>, <<"nestB", "nestA">>, <<"litA", "str">>, <<"litAB", "str">>,
                     <<"litA", "nestr">>, <<"litAB", "nestr">>, <<"nestr", "str">>, <<"str", "nestr">>}
Alts(t) == IF t.c = "union" THEN {t.a, t.b} ELSE {t.a}
StructSub(c, p) ==
    \/ c.c \in {"prim", "union"} /\ p.c \in {"prim", "union", "opt"} /\ \A x \in Alts(c) : \E y \in Alts(p) : PrimSub(x, y)
    \/ c.c = "opt" /\ p.c = "opt" /\ PrimSub(c.a, p.a)
    \/ c.c \in {"list", "set"} /\ p.c \in {"list", "set"} /\ PrimSub(c.a, p.a)

VARIABLES c, p
vars == <<c, p>>
Init == c \in Types /\ p \in Types
Next == UNCHANGED vars
Spec == Init /\ [][Next]_vars

StructSubSound == StructSub(c, p) => Sub(c, p)
SubReflexive   == Sub(c, c)
SubTransitive  == \A q \in Types : (Sub(c, p) /\ Sub(p, q)) => Sub(c, q)

Export ==
    /\ TLCGet("stats").generated >= 0
    /\ LET ts == SetToSeq(Types) n == Len(ts) cs == SetToSeq(Corpus) IN
       JsonSerialize(IOEnv.OUT_FILE,
         [types |-> ts,
          corpus |-> cs,
          accepts |-> [i \in 1..n |-> {j \in 1..Len(cs) : Accepts(ts[i], cs[j])}],
          pairs |-> [k \in 1..(((n * n - 1) \div Stride) + 1) |->
                        LET kk == (k - 1) * Stride + 1 i == ((kk - 1) \div n) + 1 j == ((kk - 1) % n) + 1 IN
                        [c |-> i, p |-> j, sub |-> Sub(ts[i], ts[j]), structsub |-> StructSub(ts[i], ts[j])]]])
=============================================================================
