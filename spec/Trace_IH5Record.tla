--------------------------- MODULE Trace_IH5Record ---------------------------
(***************************************************************************)
(* Trace validation of recorded protocol-level executions of IH5Record and *)
(* IH5MFRecord against the protocol operators of IH5Record.tla.            *)
(*                                                                         *)
(* Every event carries what is observable after the call:                  *)
(*   disk : the container files of the directory as parsed from their      *)
(*          bytes (user block fields, digest of the payload bytes),        *)
(*   mfd  : the manifest sidecars (digest, uuid),                          *)
(*   h    : the handle as the public API shows it (open, mode, writable),  *)
(*   vw   : digest of the complete user-visible tree,                      *)
(*   nb   : digest of all files of the neighbour records in the directory, *)
(*   fr   : the fresh tokens (uuids, digests) read off the post state.     *)
(* Clauses (C02, C03, C04, C05, C10, C11):                                 *)
(*   ok_matches_protocol, state_matches_protocol  - the action did exactly *)
(*       what Step(pre, action) says (which files appear, disappear,       *)
(*       change; handle state), in particular nothing else changed;        *)
(*   records_valid        - every record on disk is a valid chain;         *)
(*   view_function_of_payloads - equal committed payload sequences show    *)
(*       equal trees (reopen by name / by permuted list, discard);         *)
(*   neighbours_untouched - prefix-related records are never affected;     *)
(*   probe_* clauses      - corruption and crash probes (see below).       *)
(***************************************************************************)
EXTENDS Naturals, Sequences, FiniteSets, SequencesExt, TLC, Json, IOUtils

Traces == JsonDeserialize(IOEnv.TRACE_FILE)

P == INSTANCE IH5Record WITH Mutant <- "none"

VARIABLES tid, i, bad,
          vmap      \* learned: sequence of committed payload digests -> tree digest

vars == <<tid, i, bad, vmap>>

SeqToSet(s) == {s[j] : j \in DOMAIN s}

(* uncommitted payloads are not constrained by the protocol (and unstable on *)
(* disk while HDF5 has the file open): compare modulo their digest           *)
Core(c)     == [fn |-> c.fn, parse |-> c.parse, rec |-> c.rec, uuid |-> c.uuid, prev |-> c.prev,
                idx |-> c.idx, hash |-> c.hash, pd |-> c.pd, mfu |-> c.mfu, mfh |-> c.mfh,
                stub |-> c.stub]
NormC(c)    == IF c.hash = "" THEN [Core(c) EXCEPT !.pd = "uncommitted"] ELSE Core(c)
NormDisk(D) == {NormC(c) : c \in D}
(* only manifests that a container on disk refers to matter (a sidecar left  *)
(* behind next to a container that does not link to it is ignored by open)  *)
NormMfd(M, D) == {m \in M : \E c \in D : c.fn = m.fn /\ c.mfu # ""}
StateOf(e)  == [disk |-> {Core(c) : c \in SeqToSet(e.disk)}, mfd |-> SeqToSet(e.mfd), h |-> e.h]

(* C02: every byte of a committed container and of its manifest stays as it  *)
(* was, whatever the action -- except for the explicitly truncating 'w' and  *)
(* the explicit delete_files of that record                                 *)
FrozenViolated(pe, e) ==
    LET truncating == (e.op = "open" /\ e.a.mode = "w" /\ e.ok) \/ (e.op = "delete_files" /\ e.ok) IN
    \/ \E c \in SeqToSet(pe.disk) :
          /\ c.hash # "" /\ c.parse
          /\ ~(truncating /\ c.fn[1] = e.a.rname)
          /\ ~\E d \in SeqToSet(e.disk) : d.fn = c.fn /\ d.fd = c.fd
    \/ \E m \in SeqToSet(pe.mfd) :
          /\ \E c \in SeqToSet(pe.disk) : c.fn = m.fn /\ c.hash # "" /\ c.mfh = m.dig
          /\ ~(truncating /\ m.fn[1] = e.a.rname)
          /\ ~\E k \in SeqToSet(e.mfd) : k = m
SameState(A, B) ==
    /\ NormDisk(A.disk) = NormDisk(B.disk)
    /\ NormMfd(A.mfd, A.disk) = NormMfd(B.mfd, B.disk)
    /\ A.h = B.h

RecordNames(D) == {c.fn[1] : c \in D}
PayloadKey(D, rn) ==
    LET s == P!Sorted(P!Files(D, rn)) IN [j \in DOMAIN s |-> s[j].pd]

ProtocolOps == {"open", "create_patch", "write", "commit", "discard", "close", "merge", "delete_files", "open_older"}

(* --- corruption probes (C04): one event = one (possibly corrupted) file set  *)
(*     that the real class was asked to open read-only                         *)
ProbeClauses(e) ==
    LET F == {Core(c) : c \in SeqToSet(e.disk)} M == SeqToSet(e.mfd) IN
    (IF e.ok # P!Valid(F, M, e.cls) THEN {"probe_opens_iff_valid"} ELSE {})
    \cup (IF P!OpenChecks(F, M, e.cls) # P!Valid(F, M, e.cls) THEN {"probe_model_checks_eq_valid"} ELSE {})
    \* the uncorrupted record, exactly as the building history left it, is a valid file set
    \cup (IF e.intact /\ ~P!Valid(F, M, e.cls) THEN {"built_record_is_valid"} ELSE {})

(* --- crash probes (C11): the directory as left by a crash/torn write         *)
(*   e.sub_ok, e.sub_vw : opening only the previously committed containers     *)
(*   e.full_ok, e.full_vw, e.full_committed : opening everything               *)
(*   e.cvws : tree digest(s) of the last committed state (for a process kill   *)
(*   the commit announced as in progress may or may not have completed);       *)
(*   e.nvw : tree digest of the state whose commit was in progress ("" if      *)
(*   none);  e.frozen_ok : previously committed files are byte-identical       *)
CrashClauses(e) ==
    LET ok_states == SeqToSet(e.cvws) IN
    (IF ~e.frozen_ok THEN {"crash_committed_bytes_identical"} ELSE {})
    \cup (IF ~e.sub_ok \/ e.sub_vw \notin ok_states
          THEN {"crash_committed_subset_shows_last_commit"} ELSE {})
    \cup (IF e.full_ok /\ e.full_committed /\ e.full_vw \notin (ok_states \cup {e.nvw})
          THEN {"crash_never_clean_with_unwritten_state"} ELSE {})

Clauses(T, j, vm) ==
    LET e    == T[j]
        pre  == StateOf(T[j - 1])
        post == StateOf(e)
    IN
    IF e.op = "probe" THEN ProbeClauses(e)
    ELSE IF e.op = "crash_probe" THEN CrashClauses(e)
    ELSE
    LET exp == P!Step(pre, e.a) IN
    (IF e.timeout THEN {"operation_terminates"} ELSE {})
    \cup (IF e.op \in ProtocolOps /\ e.ok # exp.ok THEN {"ok_matches_protocol"} ELSE {})
    \cup (IF e.op \in ProtocolOps /\ ~SameState(post, exp.S) THEN {"state_matches_protocol"} ELSE {})
    \cup (IF e.op \notin ProtocolOps /\ ~SameState(post, pre) THEN {"observation_changes_nothing"} ELSE {})
    \cup (IF \E rn \in RecordNames(post.disk) :
                ~P!Valid(P!Files(post.disk, rn), post.mfd, IF rn = e.h.rname THEN e.cls ELSE "ih5")
          THEN {"records_valid"} ELSE {})
    \cup (IF e.nb # T[j - 1].nb THEN {"neighbours_untouched"} ELSE {})
    \cup (IF FrozenViolated(T[j - 1], e) THEN {"committed_bytes_frozen"} ELSE {})
    \cup (IF \E x \in SeqToSet(e.chain) : ~x.ok \/ x.vw # e.vw THEN {"chain_continues_on_merged"} ELSE {})
    \cup (IF e.h.open /\ ~e.h.wr /\ <<e.h.rname, PayloadKey(post.disk, e.h.rname)>> \in DOMAIN vm
             /\ vm[<<e.h.rname, PayloadKey(post.disk, e.h.rname)>>] # e.vw
          THEN {"view_function_of_payloads"} ELSE {})
    \cup (IF e.op = "list_records" /\ SeqToSet(e.listed) # SeqToSet(e.all_records) THEN {"list_records_exact"} ELSE {})
    \cup (IF e.op = "list_records" /\ \E rn \in SeqToSet(e.found) : SeqToSet(rn.files) # SeqToSet(rn.expected)
          THEN {"find_files_exact"} ELSE {})
    \cup (IF e.op = "merge" /\ e.ok /\ e.merged_vw # e.vw THEN {"merged_view_eq_source_view"} ELSE {})
    \cup (IF e.op = "merge" /\ e.meta_before # e.meta_after THEN {"merge_leaves_source_object_unchanged"} ELSE {})
    \* what the open record object reports about itself (files in patch order, user blocks, uuid, manifest)
    \* is what the containers say when read from their bytes
    \cup (IF e.hmis # <<>> THEN {"handle_matches_disk"} ELSE {})

Learn(e, vm) ==
    IF e.op \in ProtocolOps /\ e.h.open /\ ~e.h.wr
    THEN LET k == <<e.h.rname, PayloadKey(StateOf(e).disk, e.h.rname)>> IN
         IF k \in DOMAIN vm THEN vm ELSE [x \in DOMAIN vm \cup {k} |-> IF x = k THEN e.vw ELSE vm[x]]
    ELSE vm

Init ==
    /\ tid \in 1..Len(Traces)
    /\ i = 1
    /\ bad = {}
    /\ vmap = <<>>

Step ==
    /\ i < Len(Traces[tid])
    /\ LET T == Traces[tid] IN
       /\ bad' = bad \cup {<<i + 1, c>> : c \in Clauses(T, i + 1, vmap)}
       /\ vmap' = Learn(T[i + 1], vmap)
    /\ i' = i + 1
    /\ UNCHANGED tid

Done ==
    /\ i = Len(Traces[tid])
    /\ TLCSet(tid, bad)
    /\ i' = i + 1
    /\ UNCHANGED <<tid, bad, vmap>>

TraceSpec == Init /\ [][Step \/ Done]_vars

WriteVerdicts ==
    JsonSerialize(IOEnv.OUT_FILE, [t \in 1..Len(Traces) |-> SetToSeq(TLCGet(t))])
=============================================================================
