------------------------------- MODULE DirHash -------------------------------
(***************************************************************************)
(* C19: directory hashsums (util/hashsums.py dir_hashsums).                *)
(*                                                                         *)
(* A directory is a set of entries [p, k, v]: k = "d" directory (v = <<>>),*)
(* "f" file (v = <<content token>>), "s" symlink (v = raw target: a        *)
(* sequence of segments, ".." = up, relative to the link's directory).     *)
(* Sem(D) is what a directory *is* for the purposes of C19: names, file    *)
(* contents, *resolved* in-directory symlink targets and (possibly empty)  *)
(* subdirectories.  HashTree(D) is what dir_hashsums must return: the same *)
(* structure with H(content) for files and the resolved target for         *)
(* symlinks -- or REJECTED if some symlink leads outside.                  *)
(* Two accepted directories get equal hash trees iff they are equal in     *)
(* the sense of Sem; this is checked for every pair of the universe.       *)
(***************************************************************************)
EXTENDS Naturals, Sequences, FiniteSets, SequencesExt, TLC, Json, IOUtils

CONSTANTS Contents,     \* file content tokens
          RawTargets,   \* raw symlink targets (sequences of segments)
          Names1, Names2, Stride

SeqToSet2(s) == {s[j] : j \in DOMAIN s}
Parent(p) == SubSeq(p, 1, Len(p) - 1)
OUTSIDE == <<"<outside>">>

(* lexical resolution of a relative target from directory `dir` (no symlink chains in the universe) *)
RECURSIVE Walk(_, _, _)
Walk(cur, segs, j) ==
    IF cur = OUTSIDE \/ j > Len(segs) THEN cur
    ELSE IF segs[j] = ".." THEN Walk(IF cur = <<>> THEN OUTSIDE ELSE Parent(cur), segs, j + 1)
    ELSE IF segs[j] = "." THEN Walk(cur, segs, j + 1)
    ELSE Walk(Append(cur, segs[j]), segs, j + 1)
Resolve(dir, raw) == Walk(dir, raw, 1)

Rejected(D) == \E e \in D : e.k = "s" /\ Resolve(Parent(e.p), e.v) = OUTSIDE

SemEntry(e) == [p |-> e.p, k |-> e.k,
                v |-> IF e.k = "s" THEN Resolve(Parent(e.p), e.v) ELSE e.v]
Sem(D) == {SemEntry(e) : e \in D}

H(c) == <<"H", c>>          \* an injective digest on content tokens
HashTree(D) == {[p |-> e.p, k |-> e.k, v |-> IF e.k = "f" THEN H(e.v[1]) ELSE SemEntry(e).v] : e \in D \ {x \in D : x.p = <<>>}}

(* ---- universe: one initial state per pair ---------------------------------------- *)
Leaf   == {[k |-> "f", v |-> <<c>>] : c \in Contents} \cup {[k |-> "s", v |-> t] : t \in RawTargets}
NONE   == [k |-> "none", v |-> <<>>]
Opt2   == Leaf \cup {[k |-> "d", v |-> <<>>], NONE}
Bodies == [SeqToSet2(Names2) -> Opt2]
Top    == {[e |-> l, body |-> <<>>] : l \in Leaf \cup {NONE}} \cup {[e |-> [k |-> "d", v |-> <<>>], body |-> bd] : bd \in Bodies}
Shapes == [SeqToSet2(Names1) -> Top]
TreeOf(sh) ==
    {[p |-> <<>>, k |-> "d", v |-> <<>>]}
    \cup {[p |-> <<n>>, k |-> sh[n].e.k, v |-> sh[n].e.v] : n \in {m \in SeqToSet2(Names1) : sh[m].e # NONE}}
    \cup UNION {{[p |-> <<n, m>>, k |-> sh[n].body[m].k, v |-> sh[n].body[m].v]
                    : m \in {x \in SeqToSet2(Names2) : sh[n].body[x] # NONE}}
                : n \in {x \in SeqToSet2(Names1) : sh[x].e.k = "d"}}
Trees == {TreeOf(sh) : sh \in Shapes}

VARIABLES a, b
vars == <<a, b>>
Init == a \in Trees /\ b \in Trees
Next == UNCHANGED vars
Spec == Init /\ [][Next]_vars

EqualIffSame == (~Rejected(a) /\ ~Rejected(b)) => ((HashTree(a) = HashTree(b)) <=> (Sem(a) = Sem(b)))
RawTargetIrrelevant ==      \* only the resolved target matters, not how the link is written
    (~Rejected(a) /\ ~Rejected(b) /\ Sem(a) = Sem(b)) => HashTree(a) = HashTree(b)

Export ==
    /\ TLCGet("stats").generated >= 0
    /\ LET ts == SetToSeq(Trees) n == Len(ts) IN
       JsonSerialize(IOEnv.OUT_FILE,
         [c \in 1..(((n - 1) \div Stride) + 1) |->
            LET t == ts[(c - 1) * Stride + 1] IN
            [tree |-> SetToSeq(t), rejected |-> Rejected(t),
             hs |-> IF Rejected(t) THEN <<>> ELSE SetToSeq(HashTree(t))]])
=============================================================================
