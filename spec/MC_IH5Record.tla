---------------------------- MODULE MC_IH5Record ----------------------------
(***************************************************************************)
(* The state machine over the protocol operators of IH5Record, explored    *)
(* exhaustively by TLC for a few record names and patches:                 *)
(*   - every public protocol action in every open mode,                    *)
(*   - commit split into its sub-steps with a Crash after each (C11),      *)
(*   - copying a record's files under another name (source of forks),      *)
(* and, evaluated in every reachable state, the adversary of C04: every    *)
(* subset of a record's files and every single corruption of it must be    *)
(* accepted by the step-by-step open checks iff it is declaratively valid. *)
(***************************************************************************)
EXTENDS IH5Record

CONSTANTS Names,        \* record names
          Cls,          \* "ih5" or "mf"
          MaxTok,       \* bound on fresh tokens
          MaxPatches    \* bound on patch index

VARIABLES st,       \* [disk, mfd, h]
          tok,      \* fresh token counter
          phase,    \* "idle" or the commit sub-step reached
          frozen    \* containers (records) that were committed at some time

vars == <<st, tok, phase, frozen>>

Tok(n)  == ToString(n)
Fr      == [rec |-> "r" \o Tok(tok), uuid |-> "u" \o Tok(tok), pd |-> "p" \o Tok(tok),
            mfu |-> "m" \o Tok(tok), mfdig |-> "d" \o Tok(tok)]
Modes   == {"r", "r+", "a", "w", "x", "w-"}

Init ==
    /\ st = [disk |-> {}, mfd |-> {}, h |-> Closed]
    /\ tok = 1
    /\ phase = "idle"
    /\ frozen = {}

Take(r) ==
    /\ st' = r.S
    /\ tok' = tok + 1
    /\ frozen' = (frozen \cup {c \in r.S.disk : Committed(c)})

DoOpen ==
    /\ phase = "idle"
    /\ \E mode \in Modes, rname \in Names, bylist \in BOOLEAN :
         Take(Open(st, mode, rname, bylist, Cls, Fr))
    /\ UNCHANGED phase

DoSimple ==
    /\ phase = "idle"
    /\ \/ Take(CreatePatch(st, Fr))
       \/ Take(Write(st, Fr))
       \/ Take(Discard(st))
       \/ \E c \in BOOLEAN : Take(Close(st, c, Cls, Fr))
       \/ \E t \in Names : Take(Merge(st, t, Cls, Fr))
    /\ UNCHANGED phase

(* commit_patch in sub-steps: close the HDF5 file (payload final), hash it,  *)
(* write the user block (possibly torn), write the manifest, reopen          *)
CommitClose ==
    /\ phase = "idle" /\ st.h.open /\ st.h.rw /\ st.h.wr
    /\ LET n == Newest(MyFiles(st)) IN
       st' = [st EXCEPT !.disk = (@ \ {n}) \cup {[n EXCEPT !.pd = Fr.pd]}]
    /\ phase' = "closed" /\ tok' = tok + 1 /\ UNCHANGED frozen

CommitUB ==
    /\ phase = "closed"
    /\ LET n == Newest(MyFiles(st)) IN
       \E how \in {"full", "torn_prefix", "torn_garbage"} :
         LET n1 == CASE how = "full" ->
                          IF Cls = "mf"
                          THEN [n EXCEPT !.hash = n.pd, !.mfu = Fr.mfu, !.mfh = Fr.mfdig]
                          ELSE [n EXCEPT !.hash = IF Mutant = "hash_before_close" THEN "stale" ELSE n.pd]
                     [] how = "torn_prefix"  -> n
                     [] how = "torn_garbage" -> [n EXCEPT !.parse = FALSE]
         IN /\ st' = [st EXCEPT !.disk = (@ \ {n}) \cup {n1}]
            /\ phase' = IF how = "full" THEN "ubdone" ELSE "torn"
    /\ tok' = tok + 1 /\ UNCHANGED frozen

CommitMF ==
    /\ phase = "ubdone"
    /\ LET n == Newest(MyFiles(st)) IN
       /\ st' = [st EXCEPT !.mfd = IF Cls = "mf"
                                   THEN {m \in @ : m.fn # n.fn} \cup {[fn |-> n.fn, dig |-> n.mfh, uuid |-> n.mfu]}
                                   ELSE @,
                           !.h.wr = FALSE]
       /\ frozen' = frozen \cup {c \in st'.disk : Committed(c)}
    /\ phase' = "idle" /\ UNCHANGED tok

(* the process dies: whatever is on disk stays, the handle is gone           *)
Crash ==
    /\ st.h.open
    /\ st' = [st EXCEPT !.h = Closed]
    /\ phase' = "idle"
    /\ UNCHANGED <<tok, frozen>>

(* cp of all files of a record under another (unused) name: basis of forks   *)
CopyRecord ==
    /\ phase = "idle" /\ ~st.h.open
    /\ \E a, b \in Names :
         /\ a # b /\ Files(st.disk, a) # {} /\ Files(st.disk, b) = {}
         /\ \A c \in Files(st.disk, a) : Committed(c)
         /\ st' = [st EXCEPT
                !.disk = @ \cup {[c EXCEPT !.fn = <<b, c.fn[2]>>] : c \in Files(st.disk, a)},
                !.mfd = @ \cup {[m EXCEPT !.fn = <<b, m.fn[2]>>] : m \in {x \in st.mfd : x.fn[1] = a}}]
    /\ UNCHANGED <<tok, phase, frozen>>

Next == DoOpen \/ DoSimple \/ CommitClose \/ CommitUB \/ CommitMF \/ Crash \/ CopyRecord

Spec == Init /\ [][Next]_vars

Bound ==
    /\ tok <= MaxTok
    /\ \A c \in st.disk : c.idx <= MaxPatches

-----------------------------------------------------------------------------
(* C02: a container that was committed is never changed or removed, except   *)
(* by the explicitly truncating open mode 'w' (and discard never applies     *)
(* to a committed container).                                                *)
TruncatingOpen(rn) ==      \* the step is open(rn, 'w'): a brand-new uncommitted base replaces everything
    /\ ~st.h.open /\ st'.h.open /\ st'.h.rname = rn
    /\ \A d \in Files(st'.disk, rn) :
          d.idx = 0 /\ ~Committed(d) /\ d.uuid \notin {e.uuid : e \in st.disk}
FrozenStay ==
    [][\A c \in frozen : c \in st.disk => (c \in st'.disk \/ TruncatingOpen(c.fn[1]))]_vars

(* C03: opening read-only never touches the disk (checked as: the only       *)
(* actions that change the disk while no handle is writable are 'w', create  *)
(* and create_patch) -- and every record on disk that the protocol produced  *)
(* without a crash is valid.                                                 *)
RecordsValid ==
    phase = "idle" =>
      \A rn \in Names :
        LET F == Files(st.disk, rn) IN
        (F # {} /\ \A c \in F : c.parse) =>
            \/ Valid(F, st.mfd, Cls)
            \/ (Cls = "mf" /\ ~ManifestOK(F, st.mfd))   \* crashed between user block and manifest

(* C11: whatever happened (crashes included), the containers that were       *)
(* committed still form, on their own, a valid record (for each name).       *)
CommittedSubsetValid ==
    \A rn \in Names :
      LET F == {c \in Files(st.disk, rn) : c \in frozen} IN
      (F # {} /\ Oldest(F).idx = 0 /\ F = {c \in Files(st.disk, rn) : Committed(c) /\ c.parse}) =>
          Valid(F, {}, "ih5")

(* C11: a file set whose newest container claims to be committed opens only  *)
(* if the payload is the one that was hashed                                 *)
NeverCleanUnwritten ==
    \A rn \in Names :
      LET F == Files(st.disk, rn) IN
      (F # {} /\ OpenChecks(F, st.mfd, Cls)) =>
          \A c \in F : Committed(c) => c.hash = c.pd

-----------------------------------------------------------------------------
(* C04: the adversary.  For every record name, every subset of its files     *)
(* and every single corruption of the full set.                              *)
OtherFiles(rn) == {c \in st.disk : c.fn[1] # rn}

Corruptions(F, rn) ==
    {F} \cup (SUBSET F \ {{}})
    \cup {(F \ {c}) \cup {[c EXCEPT !.pd = "corrupt"]} : c \in F}                     \* payload byte
    \cup {(F \ {c}) \cup {[c EXCEPT !.parse = FALSE]} : c \in F}                      \* user block
    \cup {(F \ {c}) \cup {[o EXCEPT !.fn = c.fn]} : c \in F, o \in OtherFiles(rn)}    \* foreign / fork
    \cup {(F \ {c}) \cup {[c EXCEPT !.uuid = d.uuid]} : c \in F, d \in F}             \* duplicated uuid
    \cup {F \cup {[c EXCEPT !.fn = <<rn, 99>>]} : c \in F}                            \* duplicated file
    \cup {(F \ {c}) \cup {[c EXCEPT !.hash = NONE]} : c \in F}                        \* hash removed
    \cup {(F \ {c}) \cup {[c EXCEPT !.idx = d.idx]} : c \in F, d \in F}               \* index edited

OpenIffValid ==
    phase = "idle" =>
    \A rn \in Names :
      LET F == Files(st.disk, rn) IN
      F # {} =>
        /\ \A G \in Corruptions(F, rn) : OpenChecks(G, st.mfd, Cls) = Valid(G, st.mfd, Cls)
        /\ Cls = "mf" =>
             /\ OpenChecks(F, {}, Cls) = Valid(F, {}, Cls)                             \* manifest removed
             /\ OpenChecks(F, {[m EXCEPT !.dig = "edited"] : m \in st.mfd}, Cls)
                  = Valid(F, {[m EXCEPT !.dig = "edited"] : m \in st.mfd}, Cls)        \* manifest edited
=============================================================================
