---------------------------- MODULE ContainerAcl ----------------------------
(***************************************************************************)
(* C15: node restrictions (read_only, local_only, skel_only) cannot be     *)
(* escaped by navigating the container (container/wrappers.py).            *)
(*                                                                         *)
(* A wrapper state is  W = [n, f, lr, up]                                  *)
(*   n  : path of the wrapped node in a fixed fixture container            *)
(*   f  : set of restriction flags                                         *)
(*   lr : path of the local root ("none" unless local_only)                *)
(*   up : the wrapper state that `parent` hands out for a local_only node  *)
(*        (NoUp at the local root)                                         *)
(* Nav(W, p) gives the wrapper reached by one navigation primitive p (or   *)
(* REFUSED).  A chain is a sequence of primitives.  For every chain the    *)
(* invariants say: flags only grow, every reached node lies at or below    *)
(* the local root.  What every attempt (mutating / reading / upward) must  *)
(* do at the reached wrapper is a function of its flags; chains and these  *)
(* expectations are exported and executed on the real wrappers.            *)
(***************************************************************************)
EXTENDS Naturals, Sequences, FiniteSets, SequencesExt, TLC, Json, IOUtils

CONSTANTS MaxChain, Starts,
          EmitFrom,  \* chains with at least this many steps are printed for the replay
          Hows,      \* the lookup / listing primitives used in chains (subset of getitem, get, items, values)
          Mutant     \* "none", or a deliberately wrong rule that TLC must reject (self-test of the invariants)

(* the fixture: groups and datasets, and which nodes carry a metadata object *)
Groups   == {<<>>, <<"g">>, <<"g", "h">>}
Datasets == {<<"d">>, <<"g", "e">>, <<"g", "h", "f">>}
Nodes    == Groups \cup Datasets
WithMeta == {<<"g">>, <<"g", "e">>, <<"g", "h", "f">>}
Flags    == {"ro", "local", "skel"}

Under(p, q)  == IsPrefix(p, q)
Parent(p)    == SubSeq(p, 1, Len(p) - 1)
Kids(p)      == {q \in Nodes : Len(q) = Len(p) + 1 /\ Under(p, q)}
Below(p)     == {q \in Nodes : Under(p, q) /\ q # p}

NoUp == [none |-> TRUE]
NoLr == <<"none">>
REFUSED == [n |-> <<"REFUSED">>, f |-> {}, lr |-> NoLr, up |-> NoUp]

Start(n, f) == [n |-> n, f |-> f, lr |-> IF "local" \in f THEN n ELSE NoLr, up |-> NoUp]

Down(W, q) ==      \* a node q below W.n handed out by W (lookup, listing, visit, query)
    [n |-> q, f |-> W.f, lr |-> W.lr, up |-> IF "local" \in W.f THEN W ELSE NoUp]

Prims(W) ==
    (IF W.n \in Groups
     THEN {<<how, q>> : how \in Hows, q \in Kids(W.n)}
          \cup {<<"visit", q>> : q \in Below(W.n)}
     ELSE {})
    \cup {<<"query", q>> : q \in {x \in WithMeta : Under(W.n, x)}}
    \cup {<<"parent", <<>>>>}
    \cup {<<"restrict", <<fl>>>> : fl \in Flags \ W.f}

Nav(W, p) ==
    CASE p[1] \in {"getitem", "get", "items", "values", "visit"} -> Down(W, p[2])
      [] p[1] = "query" -> IF p[2] = W.n THEN W ELSE Down(W, p[2])
      [] p[1] = "parent" ->
            IF "local" \in W.f
            THEN (IF W.up = NoUp THEN REFUSED
                  \* the remembered parent, carrying every restriction added to W since it was handed out
                  ELSE IF Mutant = "parent_as_remembered" THEN W.up
                  ELSE [W.up EXCEPT !.f = @ \cup W.f])
            ELSE [n |-> IF W.n = <<>> THEN <<>> ELSE Parent(W.n), f |-> W.f, lr |-> NoLr, up |-> NoUp]
      [] p[1] = "restrict" ->
            LET fl == p[2][1] IN
            [n |-> W.n, f |-> W.f \cup {fl},
             lr |-> IF fl = "local" THEN W.n ELSE W.lr,
             up |-> IF fl = "local" THEN NoUp ELSE W.up]

(* a chain: [steps, states] where states[j] is the wrapper after j - 1 steps (states[1] = start).   *)
(* Chains are the states of a state machine: one navigation primitive per step, up to MaxChain.   *)
VARIABLE chain
LastW(ch) == ch.states[Len(ch.states)]
Init == chain \in {[steps |-> <<>>, states |-> <<Start(s[1], s[2])>>] : s \in Starts}
Extend(p) ==
    chain' = [steps |-> Append(chain.steps, p), states |-> Append(chain.states, Nav(LastW(chain), p))]
Next ==
    /\ Len(chain.steps) < MaxChain
    /\ LastW(chain) # REFUSED
    /\ \E p \in Prims(LastW(chain)) : Extend(p)
Spec == Init /\ [][Next]_chain

c == chain
Live(j) == c.states[j] # REFUSED

(* ---- C15 on the model ---- *)
FlagsOnlyGrow ==
    \A j \in 1..(Len(c.states) - 1) : (Live(j) /\ Live(j + 1)) => c.states[j].f \subseteq c.states[j + 1].f
LocalNeverAbove ==
    \A j \in 1..Len(c.states) :
        (Live(j) /\ "local" \in c.states[j].f) => Under(c.states[j].lr, c.states[j].n)
LocalRootStable ==     \* once local, later wrappers stay at or below the first local root unless restricted anew below it
    \A j, k \in 1..Len(c.states) :
        (j < k /\ Live(j) /\ Live(k) /\ "local" \in c.states[j].f) => Under(c.states[j].lr, c.states[k].n)

(* ---- what attempts must do at a wrapper with flags f: "refused" or "allowed" ---- *)
Expect(W) ==
    [mutate |-> IF "ro" \in W.f THEN "refused" ELSE "allowed",
     read   |-> IF "skel" \in W.f THEN "refused" ELSE "allowed",
     upward |-> IF "local" \in W.f THEN "refused" ELSE "allowed",
     parent |-> IF Nav(W, <<"parent", <<>>>>) = REFUSED THEN "refused" ELSE "allowed"]

(* every chain (state) is printed with the expected node and flags per step and the expected outcome  *)
(* of every kind of attempt at its end; the harness executes them on the real wrappers                *)
Case(ch) ==
    [steps |-> ch.steps,
     nodes |-> [j \in DOMAIN ch.states |-> ch.states[j].n],
     flags |-> [j \in DOMAIN ch.states |-> SetToSeq(ch.states[j].f)],
     \* the local root of the last wrapper (absolute paths are an upward operation only where they can leave it)
     lroot |-> IF LastW(ch) # REFUSED /\ "local" \in LastW(ch).f THEN <<LastW(ch).lr>> ELSE <<>>,
     expect |-> IF LastW(ch) = REFUSED THEN [mutate |-> "-", read |-> "-", upward |-> "-", parent |-> "-"]
                ELSE Expect(LastW(ch))]
Emit == (Len(chain.steps) < EmitFrom) \/ PrintT(<<"CASE", ToJson(Case(chain))>>)
=============================================================================
