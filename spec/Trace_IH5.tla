------------------------------ MODULE Trace_IH5 ------------------------------
(***************************************************************************)
(* Trace validation of recorded executions of IH5Record / IH5MFRecord /    *)
(* plain h5py.File against                                                 *)
(*   - the reference machine H5Tree      (C01, C09: every user operation   *)
(*     transforms the observed tree exactly as Apply does and succeeds or  *)
(*     fails as Apply says),                                               *)
(*   - the overlay read path IH5Ops!View (the view shown after reopening   *)
(*     equals the documented interpretation of the containers on disk),    *)
(*   - boundary actions are stutters of the user-visible tree (C01, C03),  *)
(*     discard returns to the last commit (C03),                           *)
(*   - committed files are frozen (C02).                                   *)
(*                                                                         *)
(* Every event carries the complete projected state after the call, so a   *)
(* trace is judged step by step on (previous event, this event); one       *)
(* divergence does not cascade.  Verdicts are total: the result for each   *)
(* trace is the set of <<step, clause>> pairs that failed.                 *)
(*                                                                         *)
(* TRACE_FILE: JSON list of traces; a trace is a list of events            *)
(*  [op, p, q, key, v, ok, timeout, view, visit, hasraw, raw, disk, drv]   *)
(* the first event has op = "init".                                        *)
(***************************************************************************)
EXTENDS Naturals, Sequences, FiniteSets, SequencesExt, TLC, Json, IOUtils

Traces == JsonDeserialize(IOEnv.TRACE_FILE)

H5 == INSTANCE H5Tree
OV == INSTANCE IH5Ops WITH Mutant <- "none"

VARIABLES tid,      \* which trace
          i,        \* events consumed
          bad,      \* failing <<step, clause>> pairs
          frozen,   \* file name -> digest at the time it became committed
          cview,    \* the tree at the last commit
          pa        \* patch-aware bookkeeping of H5Tree: [fresh, touched, patching]

vars == <<tid, i, bad, frozen, cview, pa>>

SeqToSet(s) == {s[j] : j \in DOMAIN s}
TreeOf(view) == SeqToSet(view)
RawFiles(raw) == [j \in DOMAIN raw |-> SeqToSet(raw[j])]

UserOps == {"create_group", "set_dataset", "delete", "set_attr", "del_attr",
            "copy", "move", "require_group", "copyx", "require_dataset",
            "set_elem", "copy_into_patch"}
(* the outcome the specification expects: as on the single tree; on the IH5     *)
(* drivers the patch-aware operations additionally need PatchAllows (h5py has   *)
(* no copy_into_patch at all)                                                   *)
Expected(e, pre, P) ==
    LET R == H5!Apply(pre, e) IN
    IF e.drv = "h5" THEN R.ok /\ e.op # "copy_into_patch"
    ELSE R.ok /\ H5!PatchAllows(e, P.fresh, P.touched)
(* actions of the record protocol that must not change the visible tree     *)
StutterOps == {"commit", "create_patch", "reopen", "observe", "merge", "flush"}
(* after these (when successful) every file of the record is committed      *)
CommitOps == {"commit", "reopen"}

Clauses(T, j, fr, cv, P) ==
    LET e    == T[j]
        pre  == TreeOf(T[j - 1].view)
        post == TreeOf(e.view)
        exp  == Expected(e, pre, P)
        R    == [ok |-> exp, t |-> IF exp THEN H5!Apply(pre, e).t ELSE pre]
    IN
    (IF e.timeout THEN {"operation_terminates"} ELSE {})
    \cup (IF e.viewerr # "" THEN {"view_readable"} ELSE {})
    \cup (IF e.op \in UserOps /\ ~e.timeout /\ e.ok # R.ok
          THEN {"ok_matches_reference"} ELSE {})
    \cup (IF e.op \in UserOps /\ ~e.timeout /\ post # R.t
          THEN {"view_is_apply_of_reference"} ELSE {})
    \cup (IF e.op \in StutterOps /\ post # pre
          THEN {"boundary_is_stutter"} ELSE {})
    \cup (IF e.op = "discard" /\ e.ok /\ post # cv
          THEN {"discard_restores_commit"} ELSE {})
    \cup (IF e.op = "discard" /\ ~e.ok /\ post # pre
          THEN {"boundary_is_stutter"} ELSE {})
    \cup (IF ~H5!WellFormed(post) THEN {"view_well_formed"} ELSE {})
    \cup (IF SeqToSet(e.visit) # H5!Paths(post) \ {<<>>}
          THEN {"visit_lists_exactly_the_tree"} ELSE {})
    \* `in`, get and [] (absolute, relative, from a child group) agree with the listing, for listed and unlisted paths
    \cup (IF e.memb # <<>> THEN {"membership_matches_listing"} ELSE {})
    \cup (IF e.hasraw /\ OV!View(RawFiles(e.raw)) # post
          THEN {"view_eq_documented_reading_of_files"} ELSE {})
    \cup (IF e.drv # "h5" /\ \E f \in DOMAIN fr : f \notin DOMAIN e.disk \/ e.disk[f] # fr[f]
          THEN {"committed_bytes_frozen"} ELSE {})
    \cup (IF e.drv # "h5" /\ e.op = "reopen"
             /\ \E f \in DOMAIN e.cdisk : f \notin DOMAIN e.disk \/ e.disk[f] # e.cdisk[f]
          THEN {"open_does_not_alter_files"} ELSE {})

Init ==
    /\ tid \in 1..Len(Traces)
    /\ i = 1
    /\ bad = {}
    /\ frozen = <<>>
    /\ cview = TreeOf(Traces[tid][1].view)
    /\ pa = [fresh |-> {}, touched |-> {}, patching |-> FALSE]

Step ==
    /\ i < Len(Traces[tid])
    /\ LET T == Traces[tid] e == T[i + 1] IN
       /\ bad' = bad \cup {<<i + 1, c>> : c \in Clauses(T, i + 1, frozen, cview, pa)}
       /\ pa' = IF e.drv = "h5" \/ e.timeout THEN pa
                ELSE IF e.op \in {"create_patch", "reopen", "discard"} /\ e.ok
                THEN [fresh |-> {}, touched |-> {}, patching |-> TRUE]
                ELSE IF e.op = "truncate" THEN [fresh |-> {}, touched |-> {}, patching |-> FALSE]
                ELSE IF e.op \notin UserOps THEN pa
                ELSE LET pre == TreeOf(T[i].view) post == TreeOf(e.view) IN
                     \* the bookkeeping follows what the implementation did (e.ok): a wrong outcome is
                     \* reported once by ok_matches_reference and does not cascade
                     [fresh |-> H5!NextFresh(pa.fresh, e, e.ok, pre, post),
                      touched |-> H5!NextTouched(pa.touched, pa.fresh, e, e.ok, pre, pa.patching),
                      patching |-> pa.patching]
       /\ frozen' = IF e.op = "commit" /\ e.ok THEN e.disk
                    ELSE IF e.op = "reopen" /\ e.ok THEN e.cdisk
                    ELSE IF e.op = "truncate" THEN <<>> ELSE frozen
       /\ cview' = IF e.op \in CommitOps /\ e.ok THEN TreeOf(e.view) ELSE cview
    /\ i' = i + 1
    /\ UNCHANGED tid

Done ==
    /\ i = Len(Traces[tid])
    /\ TLCSet(tid, bad)
    /\ i' = i + 1
    /\ UNCHANGED <<tid, bad, frozen, cview, pa>>

TraceSpec == Init /\ [][Step \/ Done]_vars

WriteVerdicts ==
    JsonSerialize(IOEnv.OUT_FILE,
                  [t \in 1..Len(Traces) |-> SetToSeq(TLCGet(t))])
=============================================================================
