----------------------------- MODULE SchemaCodec -----------------------------
(***************************************************************************)
(* C12: schema instances survive serialisation unchanged.                  *)
(*                                                                         *)
(* Field types (depth <= 2) over primitive kinds, class shapes with up to  *)
(* MaxFields fields, optional constant fields (own or inherited), and      *)
(* abstract instances.  Enc maps an instance to an abstract JSON object    *)
(* (absent optional values are omitted, constants are always present with  *)
(* their constant value); Dec reads it back (constants on input ignored).  *)
(* Laws, checked for every (shape, instance):                              *)
(*   RoundTrip, SecondRoundTripStable, ConstsAlwaysDumped,                 *)
(*   ConstsIgnoredOnLoad, NoneReadsAsDefault.                              *)
(* Every (shape, instance) is exported and concretised on real             *)
(* MetadataSchema classes by the harness.                                  *)
(***************************************************************************)
EXTENDS Naturals, Sequences, FiniteSets, SequencesExt, TLC, Json, IOUtils

CONSTANTS Prims, MaxFields, Stride

ABSENT == [k |-> "absent", v |-> <<>>]
A(x) == [k |-> "a", v |-> <<x>>]            \* an atom
Tok(p) == {p \o "#1", p \o "#2"}              \* two value tokens per primitive kind

Types ==
    {[c |-> "prim", a |-> p, b |-> ""] : p \in Prims}
    \cup {[c |-> "opt", a |-> p, b |-> ""] : p \in Prims}
    \cup {[c |-> "optdef", a |-> p, b |-> ""] : p \in Prims}      \* Optional with a non-None default
    \cup {[c |-> "list", a |-> p, b |-> ""] : p \in Prims}
    \cup {[c |-> "set", a |-> p, b |-> ""] : p \in Prims}
    \cup {[c |-> "union", a |-> pq[1], b |-> pq[2]] : pq \in {x \in Prims \X Prims : x[1] # x[2]}}
    \cup {[c |-> "nested", a |-> p, b |-> ""] : p \in Prims}      \* a nested schema with one field of kind p
    \cup {[c |-> "optnested", a |-> p, b |-> ""] : p \in Prims}

Vals(t) ==
    CASE t.c = "prim"   -> {A(x) : x \in Tok(t.a)}
      [] t.c = "opt"    -> {A(x) : x \in Tok(t.a)} \cup {ABSENT}
      [] t.c = "optdef" -> {A(x) : x \in Tok(t.a)} \cup {ABSENT}
      [] t.c = "list"   -> {[k |-> "l", v |-> <<>>]} \cup {[k |-> "l", v |-> <<x>>] : x \in Tok(t.a)}
                           \cup {[k |-> "l", v |-> <<x, y>>] : x, y \in Tok(t.a)}
      [] t.c = "set"    -> {[k |-> "s", v |-> SetToSortSeq(S, LAMBDA x, y : x = t.a \o "#1" /\ y = t.a \o "#2")] : S \in SUBSET Tok(t.a)}
      [] t.c = "union"  -> {A(x) : x \in Tok(t.a) \cup Tok(t.b)}
      [] t.c = "nested" -> {[k |-> "o", v |-> <<x>>] : x \in Tok(t.a)}
      [] t.c = "optnested" -> {[k |-> "o", v |-> <<x>>] : x \in Tok(t.a)} \cup {ABSENT}

Default(t) == IF t.c = "optdef" THEN A(t.a \o "#1") ELSE ABSENT

(* a shape: field types, whether a constant is declared here / inherited from the parent class *)
Shapes == {[fields |-> fs, const |-> k] : fs \in UNION {[1..n -> Types] : n \in 1..MaxFields},
                                           k \in {"none", "own", "inherited", "overridden"}}
Instances(sh) == {inst \in [DOMAIN sh.fields -> UNION {Vals(sh.fields[j]) : j \in DOMAIN sh.fields}] :
                    \A j \in DOMAIN sh.fields : inst[j] \in Vals(sh.fields[j])}

ConstVal(sh) == CASE sh.const = "none" -> ABSENT
                  [] sh.const = "overridden" -> A("K2")
                  [] OTHER -> A("K1")

(* abstract JSON: field index -> value, plus "const" *)
Enc(sh, inst) ==
    [k \in {j \in DOMAIN sh.fields : inst[j] # ABSENT} \cup (IF sh.const = "none" THEN {} ELSE {0}) |->
        IF k = 0 THEN ConstVal(sh) ELSE inst[k]]
Dec(sh, js) ==
    [j \in DOMAIN sh.fields |-> IF j \in DOMAIN js THEN js[j] ELSE Default(sh.fields[j])]

(* what an instance normalises to when it is constructed: an explicit None for a field with a
   non-None default reads back as that default (documented convention None = missing)        *)
Norm(sh, inst) == [j \in DOMAIN sh.fields |-> IF inst[j] = ABSENT THEN Default(sh.fields[j]) ELSE inst[j]]

VARIABLES sh, inst
vars == <<sh, inst>>
Init == sh \in Shapes /\ inst \in Instances(sh)
Next == UNCHANGED vars
Spec == Init /\ [][Next]_vars

RoundTrip == Dec(sh, Enc(sh, Norm(sh, inst))) = Norm(sh, inst)
SecondRoundTripStable ==
    LET x1 == Dec(sh, Enc(sh, Norm(sh, inst))) IN Enc(sh, x1) = Enc(sh, Norm(sh, inst))
ConstsAlwaysDumped == (sh.const # "none") => (0 \in DOMAIN Enc(sh, inst) /\ Enc(sh, inst)[0] = ConstVal(sh))
ConstsIgnoredOnLoad ==
    LET js == Enc(sh, Norm(sh, inst))
        tampered == [k \in DOMAIN js \cup {0} |-> IF k = 0 THEN A("tampered") ELSE js[k]]
    IN Dec(sh, tampered) = Norm(sh, inst)
NoneReadsAsDefault ==
    \A j \in DOMAIN sh.fields : (sh.fields[j].c = "optdef" /\ inst[j] = ABSENT) => Dec(sh, Enc(sh, inst))[j] = Default(sh.fields[j])

(* ---- export: one case per (shape, instance), strided ---- *)
SSeq == SetToSeq(Shapes)
CaseOf(s, i) == [fields |-> s.fields, const |-> s.const,
                 inst |-> i,
                 keys |-> SetToSeq(DOMAIN Enc(s, Norm(s, i)))]
AllCases == UNION {{CaseOf(s, i) : i \in Instances(s)} : s \in Shapes}
Export ==
    /\ TLCGet("stats").generated >= 0
    /\ LET cs == SetToSeq(AllCases) n == Len(cs) IN
       JsonSerialize(IOEnv.OUT_FILE, [k \in 1..(((n - 1) \div Stride) + 1) |-> cs[(k - 1) * Stride + 1]])
=============================================================================
