------------------------------ MODULE IH5Record ------------------------------
(***************************************************************************)
(* The IH5 file-set protocol (record.py, manifest.py): what is on disk,    *)
(* which file sets are valid records, and what every public protocol       *)
(* action (open in each mode, create/commit/discard patch, close, merge,   *)
(* create_stub) does to the disk and to the handle.                        *)
(*                                                                         *)
(* The protocol is written as operators over an explicit state record      *)
(*     S = [disk, mfd, h]                                                  *)
(* so that the same operators drive the TLC state machine                  *)
(* (MC_IH5Record.tla) and judge recorded executions of the real classes    *)
(* (Trace_IH5Record.tla).                                                  *)
(*                                                                         *)
(* A container file, as observable from its bytes:                         *)
(*   [fn    |-> <<record name, k>>   file name NAME.ih5 (k=0) / NAME.pk.ih5 *)
(*    parse |-> BOOLEAN               user block is well formed            *)
(*    rec, uuid, prev |-> tokens      record_uuid, patch_uuid, prev_patch  *)
(*    idx   |-> Nat                   patch_index                          *)
(*    hash  |-> token or NONE         stored hdf5_hashsum                  *)
(*    pd    |-> token                 digest of the actual payload bytes   *)
(*    mfu, mfh |-> token or NONE      manifest uuid / hashsum in ub_exts   *)
(*    stub  |-> BOOLEAN]              is_stub_container in ub_exts         *)
(* A manifest sidecar:  [fn |-> container file name, dig |-> digest of its *)
(*    bytes, uuid |-> manifest_uuid, exts |-> token of manifest_exts,      *)
(*    skel |-> token of the skeleton]                                      *)
(* The handle:  [open, rw, wr, rname]  (rw: mode 'r+'; wr: has an          *)
(*    uncommitted writable container)                                      *)
(***************************************************************************)
EXTENDS Naturals, Sequences, FiniteSets, SequencesExt, FiniteSetsExt, TLC

CONSTANT Mutant     \* "none", or the name of a deliberately wrong rule (non-vacuity runs)

NONE == ""

Committed(c)   == c.hash # NONE
Files(disk, rname) == {c \in disk : c.fn[1] = rname}     \* find_files: exact record name
Sorted(F)      == SetToSortSeq(F, LAMBDA a, b : a.idx < b.idx)
Newest(F)      == CHOOSE c \in F : \A d \in F : d.idx <= c.idx
Oldest(F)      == CHOOSE c \in F : \A d \in F : c.idx <= d.idx
MfFor(mfd, c)  == {m \in mfd : m.fn = c.fn}

(***************************************************************************)
(* Declarative validity (C04): one base plus a gap-free linked chain of    *)
(* patches of one record, every container but the newest committed, every  *)
(* stored hash equal to the payload digest, distinct patch uuids; for the  *)
(* manifest class the manifest of the newest committed container must      *)
(* exist and match.                                                        *)
(***************************************************************************)
(* a chain: exactly one base (no predecessor), every other container names as *)
(* predecessor the patch uuid of a container of the set with a smaller index, *)
(* and no two containers have the same predecessor (no fork, no gap)          *)
IsChain(F) ==
    /\ Cardinality({c \in F : c.prev = NONE}) = 1
    /\ \A c \in F : c.prev # NONE => \E d \in F : d.uuid = c.prev /\ d.idx < c.idx
    /\ \A c, d \in F : c # d => c.prev # d.prev

(* the latest manifest is the one of the newest *committed* container: an uncommitted   *)
(* patch on top has none yet (the pinned code looked at the newest container only and so *)
(* neither checked nor loaded any manifest in that situation: mutant "manifest_of_newest_only") *)
ManifestHolder(F, newestOnly) ==
    LET n == Newest(F) IN
    IF Committed(n) \/ Cardinality(F) = 1 \/ newestOnly THEN n
    ELSE Newest(F \ {n})
ManifestMatches(F, mfd, newestOnly) ==
    LET n == ManifestHolder(F, newestOnly) IN
    n.mfu # NONE => \E m \in MfFor(mfd, n) : m.dig = n.mfh
ManifestOKDecl(F, mfd) == ManifestMatches(F, mfd, FALSE)                                  \* what validity means
ManifestOK(F, mfd)     == ManifestMatches(F, mfd, Mutant = "manifest_of_newest_only")    \* what _open checks

Valid(F, mfd, cls) ==
    /\ F # {}
    /\ \A c \in F : c.parse
    /\ IsChain(F)
    /\ \A c, d \in F : c.rec = d.rec
    /\ \A c, d \in F : c # d => c.uuid # d.uuid
    /\ \A c \in F : c # Newest(F) => Committed(c)
    /\ \A c \in F : Committed(c) => c.hash = c.pd
    /\ cls = "mf" => ManifestOKDecl(F, mfd)
    /\ cls = "mf" => \A c \in F : c.stub => c = Oldest(F)

(***************************************************************************)
(* The checks as IH5Record._open / _check_ublock / IH5MFRecord._open       *)
(* perform them, in order, on the files sorted by patch index.             *)
(***************************************************************************)
CheckUB(c, base, hasPrev, prev, needHash) ==
    /\ c.rec = base.rec
    /\ (needHash => Committed(c))
    /\ (Committed(c) => (c.hash = c.pd \/ (Mutant = "skip_newest_hash_match" /\ ~needHash)))
    /\ (hasPrev =>
          /\ c.idx > prev.idx
          /\ c.prev # NONE
          /\ (c.prev = prev.uuid \/ Mutant = "prev_by_index_only"))

OpenChecks(F, mfd, cls) ==
    /\ F # {}
    /\ \A c \in F : c.parse
    /\ LET s == Sorted(F) n == Len(s) IN
       /\ s[1].prev = NONE
       /\ CheckUB(s[1], s[1], FALSE, s[1], n > 1)
       /\ \A i \in 2..(n - 1) : CheckUB(s[i], s[1], TRUE, s[i - 1], TRUE)
       /\ (n > 1 => CheckUB(s[n], s[1], TRUE, s[n - 1], FALSE))
       /\ (Cardinality({c.uuid : c \in F}) = Cardinality(F) \/ Mutant = "no_uuid_distinct")
       /\ (cls = "mf" => /\ (ManifestOK(F, mfd) \/ Mutant = "manifest_unchecked")
                         /\ \A i \in 2..n : ~s[i].stub)

(***************************************************************************)
(* Protocol actions as total functions of the state.                       *)
(* Every operator returns [ok |-> BOOLEAN, S |-> next state]; a refused    *)
(* action leaves the state unchanged.  Fresh tokens (uuids, payload        *)
(* digests, manifest digests) are parameters.                              *)
(***************************************************************************)
Closed == [open |-> FALSE, rw |-> FALSE, wr |-> FALSE, rname |-> NONE]
Refuse(S) == [ok |-> FALSE, S |-> S]
Accept(S) == [ok |-> TRUE, S |-> S]

MyFiles(S) == Files(S.disk, S.h.rname)
(* a usable handle: open and its record has files (keeps the operators total  *)
(* on arbitrary -- e.g. deliberately corrupted -- logged states)              *)
Live(S)    == S.h.open /\ MyFiles(S) # {}

NewContainer(rname, k, idx, rec, uuid, prev, pd) ==
    [fn |-> <<rname, k>>, parse |-> TRUE, rec |-> rec, uuid |-> uuid, prev |-> prev,
     idx |-> idx, hash |-> NONE, pd |-> pd, mfu |-> NONE, mfh |-> NONE, stub |-> FALSE]

(* fr = [rec, uuid, pd, mfu, mfd(ig)] : fresh tokens for whatever is created *)
Create(S, rname, fr) ==
    Accept([S EXCEPT !.disk = @ \cup {NewContainer(rname, 0, 0, fr.rec, fr.uuid, NONE, fr.pd)},
                     !.h = [open |-> TRUE, rw |-> TRUE, wr |-> TRUE, rname |-> rname]])

CreatePatchOn(S, fr) ==
    LET F == MyFiles(S) n == Newest(F) IN
    [S EXCEPT !.disk = @ \cup {NewContainer(S.h.rname, n.idx + 1, n.idx + 1, n.rec, fr.uuid, n.uuid, fr.pd)},
              !.h.wr = TRUE]

CreatePatch(S, fr) ==
    IF Live(S) /\ S.h.rw /\ ~S.h.wr THEN Accept(CreatePatchOn(S, fr)) ELSE Refuse(S)

(* Open by record name or by the explicit list of its files (any order).    *)
Open(S, mode, rname, bylist, cls, fr) ==
    LET F == Files(S.disk, rname) IN
    IF S.h.open THEN Refuse(S)
    ELSE IF mode \in {"w", "x", "w-"} /\ bylist THEN Refuse(S)
    ELSE IF mode = "w" THEN
        Create([S EXCEPT !.disk = @ \ F, !.mfd = {m \in @ : m.fn[1] # rname}], rname, fr)
    ELSE IF mode \in {"x", "w-"} THEN
        IF F = {} THEN Create(S, rname, fr) ELSE Refuse(S)
    ELSE IF F = {} THEN
        IF mode = "a" /\ ~bylist THEN Create(S, rname, fr) ELSE Refuse(S)
    ELSE IF ~OpenChecks(F, S.mfd, cls) THEN Refuse(S)
    ELSE IF mode = "r" THEN
        Accept([S EXCEPT !.h = [open |-> TRUE, rw |-> FALSE, wr |-> FALSE, rname |-> rname]])
    ELSE \* r+ / a : continue an uncommitted container or start a new patch
        LET S1 == [S EXCEPT !.h = [open |-> TRUE, rw |-> TRUE, rname |-> rname,
                                   wr |-> ~Committed(Newest(F))]]
        IN IF S1.h.wr THEN Accept(S1) ELSE Accept(CreatePatchOn(S1, fr))

(* a write into the writable container changes its payload                  *)
Write(S, fr) ==
    IF Live(S) /\ S.h.wr
    THEN LET n == Newest(MyFiles(S)) IN
         Accept([S EXCEPT !.disk = (@ \ {n}) \cup {[n EXCEPT !.pd = fr.pd]}])
    ELSE Refuse(S)

CommitOn(S, cls, fr) ==
    LET n  == Newest(MyFiles(S))
        n1 == IF cls = "mf"
              THEN [n EXCEPT !.hash = fr.pd, !.pd = fr.pd, !.mfu = fr.mfu, !.mfh = fr.mfdig]
              ELSE [n EXCEPT !.hash = fr.pd, !.pd = fr.pd]
    IN [S EXCEPT !.disk = (@ \ {n}) \cup {n1},
                 !.mfd = IF cls = "mf"
                         THEN {m \in @ : m.fn # n.fn} \cup
                              {[fn |-> n.fn, dig |-> fr.mfdig, uuid |-> fr.mfu]}
                         ELSE @,
                 !.h.wr = FALSE]

(* commit_patch: closing the HDF5 file finalises the payload (fr.pd is its  *)
(* digest), then hash + user block (+ manifest) are written                 *)
Commit(S, cls, fr) ==
    IF Live(S) /\ S.h.rw /\ S.h.wr THEN Accept(CommitOn(S, cls, fr)) ELSE Refuse(S)

Discard(S) ==
    LET F == MyFiles(S) IN
    IF Live(S) /\ S.h.rw /\ S.h.wr /\ Cardinality(F) > 1
    THEN Accept([S EXCEPT !.disk = @ \ {Newest(F)}, !.h.wr = FALSE])
    ELSE Refuse(S)

Close(S, commit, cls, fr) ==
    IF ~S.h.open THEN Accept(S)
    ELSE LET S1 == IF Live(S) /\ S.h.wr /\ S.h.rw /\ commit THEN CommitOn(S, cls, fr) ELSE S
         IN Accept([S1 EXCEPT !.h = Closed])

(* merge_files(target): a single committed container that identifies itself  *)
(* as the same record at the same patch state; the source is untouched       *)
Merge(S, target, cls, fr) ==
    LET F == MyFiles(S) IN
    IF ~Live(S) \/ S.h.wr \/ Files(S.disk, target) # {} \/ target = S.h.rname
       \/ (cls = "mf" /\ \E c \in F : c.stub)
    THEN Refuse(S)
    ELSE LET n == Newest(F)
             m == [n EXCEPT !.fn = <<target, 0>>, !.prev = Oldest(F).prev,
                            !.hash = fr.pd, !.pd = fr.pd]
         IN Accept([S EXCEPT !.disk = @ \cup {m},
                             !.mfd = IF cls = "mf" /\ n.mfu # NONE
                                     THEN @ \cup {[fn |-> m.fn, dig |-> n.mfh, uuid |-> n.mfu]}
                                     ELSE @])

(* Opening an *older* file set of a record (the files that existed after an   *)
(* earlier commit: a proper prefix of the committed chain) by explicit list:   *)
(* read-only it opens (and is closed again by the action); for writing the     *)
(* next patch would have the name of a container that already exists, so the   *)
(* open must be refused.  Either way nothing on disk may change.               *)
OpenOlderSet(S, mode, rname, k) ==
    LET F == Files(S.disk, rname)
        pre == {c \in F : c.idx < k} IN
    IF S.h.open \/ pre = {} \/ pre = F \/ mode \notin {"r", "r+", "a"} THEN Refuse(S)
    ELSE IF mode = "r" THEN Accept(S) ELSE Refuse(S)

(* delete_files(name): removes every container of exactly that record (class  *)
(* method; the protocol model applies it only while no handle is open)         *)
DeleteFiles(S, rname) ==
    IF S.h.open THEN Refuse(S)
    ELSE Accept([S EXCEPT !.disk = @ \ Files(@, rname)])

(* list_records(dir): the names of the records that have files in the directory *)
ListRecords(S) == {c.fn[1] : c \in S.disk}

Step(S, a) ==
    CASE a.op = "open"         -> Open(S, a.mode, a.rname, a.bylist, a.cls, a.fr)
      [] a.op = "delete_files" -> DeleteFiles(S, a.rname)
      [] a.op = "open_older"   -> OpenOlderSet(S, a.mode, a.rname, a.k)
      [] a.op = "create_patch" -> CreatePatch(S, a.fr)
      [] a.op = "write"        -> Write(S, a.fr)
      [] a.op = "commit"       -> Commit(S, a.cls, a.fr)
      [] a.op = "discard"      -> Discard(S)
      [] a.op = "close"        -> Close(S, a.commit, a.cls, a.fr)
      [] a.op = "merge"        -> Merge(S, a.target, a.cls, a.fr)
      [] OTHER                 -> Accept(S)
=============================================================================
