------------------------------ MODULE H5Tree ------------------------------
(***************************************************************************)
(* The reference machine "a single plain HDF5-like tree".                  *)
(*                                                                         *)
(* A tree is a finite set of node records                                  *)
(*     [p |-> path, k |-> "g" | "d", v |-> value token, a |-> attributes]  *)
(* where a path is a sequence of keys (<<>> is the root group, which is    *)
(* always present), v is an opaque value token ("" for groups) and a is a   *)
(* function from attribute keys to value tokens.                           *)
(*                                                                         *)
(* Apply(t, e) is total: it returns [ok |-> BOOLEAN, t |-> tree]; a failed *)
(* operation leaves the tree unchanged.  The operations are the subset of  *)
(* h5py that IH5 documents: set-dataset, create-group (both create missing *)
(* intermediate groups), delete, set/del attribute, copy (snapshot         *)
(* semantics, also into the source's own subtree) and move.                *)
(*                                                                         *)
(* This module is validated against traces of plain h5py.File (see         *)
(* Trace_H5Tree.tla), so the oracle is calibrated, not assumed.            *)
(***************************************************************************)
EXTENDS Naturals, Sequences, FiniteSets, SequencesExt

GroupNode(p)        == [p |-> p, k |-> "g", v |-> "", a |-> <<>>]
DatasetNode(p, val) == [p |-> p, k |-> "d", v |-> val, a |-> <<>>]
EmptyTree           == {GroupNode(<<>>)}

Paths(t)      == {n.p : n \in t}
Has(t, p)     == p \in Paths(t)
NodeAt(t, p)  == CHOOSE n \in t : n.p = p
IsGroup(t, p) == Has(t, p) /\ NodeAt(t, p).k = "g"
IsData(t, p)  == Has(t, p) /\ NodeAt(t, p).k = "d"

ProperPrefixes(p) == {SubSeq(p, 1, i) : i \in 0..(Len(p) - 1)}
Under(p, q)       == IsPrefix(p, q)            \* q is p or lies below p
Subtree(t, p)     == {n \in t : Under(p, n.p)}
Rebase(q, src, dst) == dst \o SubSeq(q, Len(src) + 1, Len(q))

(* A well-formed tree: unique paths, root is a group, parents are groups.   *)
WellFormed(t) ==
    /\ \A n, m \in t : n.p = m.p => n = m
    /\ IsGroup(t, <<>>)
    /\ \A n \in t : \A q \in ProperPrefixes(n.p) : IsGroup(t, q)
    /\ \A n \in t : n.k \in {"g", "d"} /\ (n.k = "g" => n.v = "")

(* p can be created: it is fresh and every existing proper prefix is a     *)
(* group (missing ones are created as groups).                             *)
CanCreate(t, p) ==
    /\ p # <<>>
    /\ ~Has(t, p)
    /\ \A q \in ProperPrefixes(p) : Has(t, q) => IsGroup(t, q)

WithAncestors(t, p) ==
    t \cup {GroupNode(q) : q \in ProperPrefixes(p) \ Paths(t)}

Fail(t) == [ok |-> FALSE, t |-> t]
Ok(t)   == [ok |-> TRUE,  t |-> t]

SetAttrOf(n, key, val) ==
    [n EXCEPT !.a = [x \in (DOMAIN n.a) \cup {key} |->
                        IF x = key THEN val ELSE n.a[x]]]
DelAttrOf(n, key) ==
    [n EXCEPT !.a = [x \in (DOMAIN n.a) \ {key} |-> n.a[x]]]

CreateGroup(t, p) ==
    IF CanCreate(t, p) THEN Ok(WithAncestors(t, p) \cup {GroupNode(p)})
                       ELSE Fail(t)

SetDataset(t, p, val) ==
    IF CanCreate(t, p) THEN Ok(WithAncestors(t, p) \cup {DatasetNode(p, val)})
                       ELSE Fail(t)

Delete(t, p) ==
    IF p # <<>> /\ Has(t, p) THEN Ok(t \ Subtree(t, p)) ELSE Fail(t)

SetAttr(t, p, key, val) ==
    IF Has(t, p)
    THEN Ok((t \ {NodeAt(t, p)}) \cup {SetAttrOf(NodeAt(t, p), key, val)})
    ELSE Fail(t)

DelAttr(t, p, key) ==
    IF Has(t, p) /\ key \in DOMAIN NodeAt(t, p).a
    THEN Ok((t \ {NodeAt(t, p)}) \cup {DelAttrOf(NodeAt(t, p), key)})
    ELSE Fail(t)

(* copy: the source subtree as it is *before* the operation (snapshot) is   *)
(* duplicated at dst; dst must be fresh; missing ancestors of dst are       *)
(* created.  Copying into the source's own subtree is allowed.              *)
Copy(t, src, dst) ==
    IF src # <<>> /\ Has(t, src) /\ CanCreate(t, dst)
    THEN Ok(WithAncestors(t, dst)
            \cup {[n EXCEPT !.p = Rebase(n.p, src, dst)] : n \in Subtree(t, src)})
    ELSE Fail(t)

(* copy with options: `shallow` copies only the immediate members (member     *)
(* groups become empty groups), `noattrs` copies no attributes at all.       *)
CopyX(t, src, dst, shallow, noattrs) ==
    IF src # <<>> /\ Has(t, src) /\ CanCreate(t, dst)
    THEN LET part == {n \in Subtree(t, src) : ~shallow \/ Len(n.p) <= Len(src) + 1}
             strip(n) == IF noattrs THEN [n EXCEPT !.a = <<>>] ELSE n
         IN Ok(WithAncestors(t, dst)
               \cup {[strip(n) EXCEPT !.p = Rebase(n.p, src, dst)] : n \in part})
    ELSE Fail(t)

(* require_dataset(shape=(), dtype=int64): returns an existing dataset whose    *)
(* shape matches and to whose type int64 casts safely (h5py's rule; of the     *)
(* value pool: the scalar int, float, text and byte-string values, not the     *)
(* arrays, the bool and the opaque values), refuses any other existing         *)
(* dataset, creates it when absent, fails if a group is in the way             *)
ScalarIntLike == {"v1", "v2", "v4", "v8"}
RequireDataset(t, p, val) ==
    IF IsData(t, p) THEN (IF NodeAt(t, p).v \in ScalarIntLike THEN Ok(t) ELSE Fail(t))
    ELSE IF Has(t, p) THEN Fail(t)
    ELSE SetDataset(t, p, val)

(* Named deviation of the IH5 drivers: IH5Group.require_dataset returns any      *)
(* existing dataset without looking at shape or type ("TODO: check dimensions" *)
(* in overlay.py); outside the operation vocabulary of C01/C09.                 *)
RequireDatasetUnchecked(t, p, val) ==
    IF IsData(t, p) THEN Ok(t)
    ELSE IF Has(t, p) THEN Fail(t)
    ELSE SetDataset(t, p, val)

(* Element write ds[k] = b.  Array values are the tokens w000 .. w111        *)
(* (three-element integer arrays of zeros and ones); any other value refuses   *)
(* element assignment.                                                        *)
ArrTok == <<"w000", "w001", "w010", "w011", "w100", "w101", "w110", "w111">>
IsArr(v)  == \E i \in 1..8 : ArrTok[i] = v
ArrIdx(v) == CHOOSE i \in 1..8 : ArrTok[i] = v
ElemSet(v, k, b) ==
    LET n == ArrIdx(v) - 1  w == 2 ^ (2 - k)  old == (n \div w) % 2 IN
    ArrTok[n - old * w + b * w + 1]
SetElem(t, p, k, b) ==
    IF IsData(t, p) /\ IsArr(NodeAt(t, p).v) /\ k \in 0..2 /\ b \in 0..1
    THEN Ok((t \ {NodeAt(t, p)}) \cup {[NodeAt(t, p) EXCEPT !.v = ElemSet(@, k, b)]})
    ELSE Fail(t)

(* Named deviation of IH5 (IH5Dataset.copy_into_patch): the dataset is        *)
(* re-created in the newest container with its value only, so on the single   *)
(* tree the call amounts to dropping the attributes of the dataset.           *)
DropAttrs(t, p) ==
    IF IsData(t, p)
    THEN Ok((t \ {NodeAt(t, p)}) \cup {[NodeAt(t, p) EXCEPT !.a = <<>>]})
    ELSE Fail(t)

(* ---- patch-aware bookkeeping ------------------------------------------------ *)
(* IH5 allows element writes only on datasets that live in the newest container  *)
(* and copy_into_patch only on those that do not (and whose path carries no       *)
(* attribute carrier in the newest container yet).  Which datasets these are is   *)
(* a function of the history since the last patch boundary:                       *)
(*   fresh   = datasets created (set, copied, moved, copied into the patch) since *)
(*   touched = older datasets whose attributes were changed since                 *)
(* IH5Overlay checks these rules against the write path (FreshOK, TouchedOK);     *)
(* Trace_IH5 uses them to judge recorded executions.                              *)
DataPaths(t) == {n.p : n \in {m \in t : m.k = "d"}}
NextFresh(fresh, e, ok, pre, post) ==
    IF ~ok THEN fresh
    ELSE CASE e.op \in {"set_dataset", "copy_into_patch"} -> fresh \cup {e.p}
           [] e.op = "require_dataset" -> IF Has(pre, e.p) THEN fresh ELSE fresh \cup {e.p}
           [] e.op = "delete" -> {q \in fresh : ~Under(e.p, q)}
           [] e.op \in {"copy", "copyx"} -> fresh \cup {q \in DataPaths(post) : Under(e.q, q)}
           [] e.op = "move" -> {q \in fresh : ~Under(e.p, q)} \cup {q \in DataPaths(post) : Under(e.q, q)}
           [] OTHER -> fresh
NextTouched(touched, fresh, e, ok, pre, patching) ==
    IF ~ok THEN touched
    ELSE CASE e.op \in {"set_attr", "del_attr"} ->
                 IF patching /\ IsData(pre, e.p) /\ e.p \notin fresh THEN touched \cup {e.p} ELSE touched
           [] e.op \in {"delete", "move"} -> {q \in touched : ~Under(e.p, q)}
           [] OTHER -> touched
PatchAllows(e, fresh, touched) ==
    CASE e.op = "set_elem" -> e.p \in fresh
      [] e.op = "copy_into_patch" -> e.p \notin fresh /\ e.p \notin touched
      [] OTHER -> TRUE

(* move = rename of the subtree.  Moving into the own subtree has no        *)
(* reference behaviour (raw HDF5 detaches the subtree) and is excluded by   *)
(* the drivers; the reference refuses it.                                   *)
Move(t, src, dst) ==
    IF src # <<>> /\ Has(t, src) /\ CanCreate(t, dst) /\ ~Under(src, dst)
    THEN Ok(WithAncestors(t \ Subtree(t, src), dst)
            \cup {[n EXCEPT !.p = Rebase(n.p, src, dst)] : n \in Subtree(t, src)})
    ELSE Fail(t)

(* require_group: returns the existing group, creates it when absent,       *)
(* fails if a dataset is in the way.                                        *)
RequireGroup(t, p) ==
    IF IsGroup(t, p) THEN Ok(t)
    ELSE IF Has(t, p) THEN Fail(t)
    ELSE CreateGroup(t, p)

(* An operation is a record with a field op and its arguments.             *)
Apply(t, e) ==
    CASE e.op = "create_group"  -> CreateGroup(t, e.p)
      [] e.op = "set_dataset"   -> SetDataset(t, e.p, e.v)
      [] e.op = "delete"        -> Delete(t, e.p)
      [] e.op = "set_attr"      -> SetAttr(t, e.p, e.key, e.v)
      [] e.op = "del_attr"      -> DelAttr(t, e.p, e.key)
      [] e.op = "copy"          -> Copy(t, e.p, e.q)
      [] e.op = "move"          -> Move(t, e.p, e.q)
      [] e.op = "require_group" -> RequireGroup(t, e.p)
      [] e.op = "copyx"         -> CopyX(t, e.p, e.q, e.shallow, e.noattrs)
      [] e.op = "require_dataset" -> IF e.drv = "h5" THEN RequireDataset(t, e.p, e.v)
                                     ELSE RequireDatasetUnchecked(t, e.p, e.v)
      [] e.op = "set_elem"      -> SetElem(t, e.p, e.k, e.b)
      [] e.op = "copy_into_patch" -> DropAttrs(t, e.p)
      [] OTHER                  -> Ok(t)       \* observations and boundaries: stutter

(* Observations derived from a tree.                                        *)
Children(t, p) == {n.p[Len(n.p)] : n \in {m \in t : Len(m.p) = Len(p) + 1 /\ Under(p, m.p)}}

VisitOrder(t, p) == Paths(Subtree(t, p)) \ {p}
=============================================================================
