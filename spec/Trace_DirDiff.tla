---------------------------- MODULE Trace_DirDiff ----------------------------
(***************************************************************************)
(* Conformance of util/diff.py with DirDiff.tla.  One event per compared   *)
(* pair of snapshots: the two trees, the node list in the order nodes()    *)
(* returned it (path, status, old and new entry), is_empty, and lookups    *)
(* with get().  Clauses:                                                   *)
(*   reported_exact      nodes = Reported(a, b), no duplicates             *)
(*   empty_iff_equal     is_empty <=> a = b                                *)
(*   order_safe          the applier machine fed with the real order turns *)
(*                       a into b without a disabled step                  *)
(*   get_agrees          get(p) finds exactly the reported paths, with the *)
(*                       same status                                       *)
(*   annotate_exact      annotate(dir) (dir holds the new snapshot) lists  *)
(*                       the diff nodes first, in nodes() order, then every *)
(*                       other existing path with no node                  *)
(***************************************************************************)
EXTENDS DirDiff, Json, IOUtils

Traces == JsonDeserialize(IOEnv.TRACE_FILE)

VARIABLES tid, i, bad
vars == <<tid, i, bad>>

SeqToSet(s) == {s[j] : j \in DOMAIN s}

Clauses(e) ==
    LET a == SeqToSet(e.a) b == SeqToSet(e.b)
        R == Reported(a, b)
        got == {[p |-> n.p, st |-> n.st, prev |-> n.prev, curr |-> n.curr] : n \in SeqToSet(e.nodes)}
        order == [j \in DOMAIN e.nodes |-> e.nodes[j].p]
    IN
    (IF got # R \/ Len(e.nodes) # Cardinality(got) THEN {"reported_exact"} ELSE {})
    \cup (IF e.is_empty # (a = b) THEN {"empty_iff_equal"} ELSE {})
    \cup (IF got = R /\ ~Transforms(a, b, order) THEN {"order_safe"} ELSE {})
    \* (named deviation: for an empty diff annotate() returns nothing at all instead of every existing path with
    \*  "no change"; the property speaks about the reported nodes only, so both answers are accepted there)
    \cup (IF e.hasann /\ ~(R = {} /\ e.ann = <<>>) /\
             (\/ {x.p : x \in SeqToSet(e.ann)} # {r.p : r \in R} \cup (Paths(b) \ {<<>>})
              \/ \E x \in SeqToSet(e.ann) : x.node # (x.p \in {r.p : r \in R})
              \/ Len(e.ann) # Cardinality({x.p : x \in SeqToSet(e.ann)})
              \/ SelectSeq([j \in DOMAIN e.ann |-> e.ann[j].p], LAMBDA q : q \in {r.p : r \in R}) # order
              \/ \E j, k \in DOMAIN e.ann : j < k /\ ~e.ann[j].node /\ e.ann[k].node)
          THEN {"annotate_exact"} ELSE {})
    \cup (IF \E g \in SeqToSet(e.gets) :
               \/ g.found # (g.p \in {r.p : r \in R})
               \/ (g.found /\ \E r \in R : r.p = g.p /\ r.st # g.st)
          THEN {"get_agrees"} ELSE {})

Init == tid \in 1..Len(Traces) /\ i = 1 /\ bad = {}
Step ==
    /\ i <= Len(Traces[tid])
    /\ bad' = bad \cup {<<i, c>> : c \in Clauses(Traces[tid][i])}
    /\ i' = i + 1
    /\ UNCHANGED tid
Done ==
    /\ i = Len(Traces[tid]) + 1
    /\ TLCSet(tid, bad)
    /\ i' = i + 1
    /\ UNCHANGED <<tid, bad>>
TraceSpec == Init /\ [][Step \/ Done]_vars
WriteVerdicts ==
    JsonSerialize(IOEnv.OUT_FILE, [t \in 1..Len(Traces) |-> SetToSeq(TLCGet(t))])
=============================================================================
