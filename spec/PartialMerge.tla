----------------------------- MODULE PartialMerge -----------------------------
(***************************************************************************)
(* C14: merging partial metadata objects (schema/partial.py).              *)
(*                                                                         *)
(* A partial value is a record of optional fields                          *)
(*   a, b : atoms        [has, v]                                          *)
(*   l    : list         [has, v \in Seq(Elem)]                            *)
(*   s    : set          [has, v \subseteq Elem]                           *)
(*   n    : nested model [has, tag, p, q, r]  (tag: class in an            *)
(*                        inheritance chain 1 <- 2; p, q optional atoms;   *)
(*                        r an optional atom only class 2 declares)        *)
(* "has = FALSE" is the documented None = missing.  Falsy values ("0",     *)
(* "F", <<>>, {}) are ordinary provided values.                            *)
(*                                                                         *)
(* Merge(x, y, ow) is the documented function: missing is overwritten by   *)
(* provided, lists are concatenated, sets united, nested models merged     *)
(* recursively (result has the left class), atoms provided on both sides   *)
(* conflict unless ow, in which case the later value wins.                 *)
(* The laws are invariants over all triples (one initial state each).      *)
(* The expected outcome of every pair is exported for conformance; for     *)
(* equal atoms provided twice both "conflict" and "the common value" are   *)
(* acceptable (nothing is lost either way).                                *)
(***************************************************************************)
EXTENDS Naturals, Sequences, FiniteSets, SequencesExt, TLC, Json, IOUtils

CONSTANTS AVals, BVals, LVals, SVals, PVals, QVals, RVals, Tags,   \* value universes per field
          PairsOnly,   \* TRUE: one initial state per pair (z = Empty), for a richer universe
          Stride,      \* export every Stride-th pair
          Stride3      \* export every Stride3-th triple (harvest pipelines; only if ~PairsOnly)

Absent(d) == [has |-> FALSE, v |-> d]
Given(x)  == [has |-> TRUE, v |-> x]

AtomU(V)  == {Absent("")} \cup {Given(x) : x \in V}
ListU     == {Absent(<<>>)} \cup {Given(x) : x \in LVals}
SetU      == {Absent({})} \cup {Given(x) : x \in SVals}
NestU     == {[has |-> FALSE, tag |-> 0, p |-> Absent(""), q |-> Absent(""), r |-> Absent("")]}
             \cup {x \in [has : {TRUE}, tag : Tags, p : AtomU(PVals), q : AtomU(QVals), r : AtomU(RVals)] :
                      x.tag = 1 => ~x.r.has}        \* only class 2 declares r
Universe  == [a : AtomU(AVals), b : AtomU(BVals), l : ListU, s : SetU, n : NestU]
Empty     == [a |-> Absent(""), b |-> Absent(""), l |-> Absent(<<>>), s |-> Absent({}),
              n |-> [has |-> FALSE, tag |-> 0, p |-> Absent(""), q |-> Absent(""), r |-> Absent("")]]

CONFLICT == "conflict"

(* field-level merges return [c |-> conflict?, v |-> merged field] *)
MAtom(x, y, ow) ==
    IF ~y.has THEN [c |-> FALSE, v |-> x]
    ELSE IF ~x.has THEN [c |-> FALSE, v |-> y]
    ELSE [c |-> ~ow, v |-> y]
MList(x, y) ==
    IF ~y.has THEN x ELSE IF ~x.has THEN y ELSE Given(x.v \o y.v)
MSet(x, y) ==
    IF ~y.has THEN x ELSE IF ~x.has THEN y ELSE Given(x.v \cup y.v)
MNest(x, y, ow) ==
    IF ~y.has THEN [c |-> FALSE, v |-> x]
    ELSE IF ~x.has THEN [c |-> FALSE, v |-> y]
    ELSE LET p == MAtom(x.p, y.p, ow) q == MAtom(x.q, y.q, ow) r == MAtom(x.r, y.r, ow) IN
         \* the result has the left class; a value of the subclass-only field is kept all the same
         [c |-> p.c \/ q.c \/ r.c, v |-> [has |-> TRUE, tag |-> x.tag, p |-> p.v, q |-> q.v, r |-> r.v]]

Merge(x, y, ow) ==
    LET a == MAtom(x.a, y.a, ow) b == MAtom(x.b, y.b, ow) n == MNest(x.n, y.n, ow) IN
    [c |-> a.c \/ b.c \/ n.c,
     v |-> [a |-> a.v, b |-> b.v, l |-> MList(x.l, y.l), s |-> MSet(x.s, y.s), n |-> n.v]]

(* conflict absorbs: merging with a conflicted result stays a conflict *)
Merge3L(x, y, z, ow) == LET m == Merge(x, y, ow) IN IF m.c THEN m ELSE Merge(m.v, z, ow)
Merge3R(x, y, z, ow) == LET m == Merge(y, z, ow) IN IF m.c THEN [c |-> TRUE, v |-> x] ELSE Merge(x, m.v, ow)

(* is it acceptable not to raise although the strict function conflicts?     *)
(* yes iff every doubly provided atom has the same value on both sides       *)
OnlyEqualClashes(x, y) ==
    LET eqA(f, g) == (f.has /\ g.has) => f.v = g.v IN
    /\ eqA(x.a, y.a) /\ eqA(x.b, y.b)
    /\ (x.n.has /\ y.n.has) => (eqA(x.n.p, y.n.p) /\ eqA(x.n.q, y.n.q) /\ eqA(x.n.r, y.n.r))

(* harvest(schema, sources) (harvester/__init__.py): the outputs of the sources are folded  *)
(* from the left in the given order without overwrite permission; the first conflict       *)
(* aborts the pipeline; a source that finds nothing contributes the empty partial.         *)
RECURSIVE HarvestFrom(_, _)
HarvestFrom(acc, srcs) ==
    IF srcs = <<>> THEN [c |-> FALSE, v |-> acc]
    ELSE LET m == Merge(acc, Head(srcs), FALSE) IN
         IF m.c THEN m ELSE HarvestFrom(m.v, Tail(srcs))
Harvest(srcs) == HarvestFrom(Empty, srcs)

(* ---- one initial state per triple ------------------------------------------------ *)
VARIABLES x, y, z
vars == <<x, y, z>>
Init == x \in Universe /\ y \in Universe /\ z \in (IF PairsOnly THEN {Empty} ELSE Universe)
Next == UNCHANGED vars
Spec == Init /\ [][Next]_vars

Provided(w) ==      \* all values a partial provides, as (field, value) pairs
    (IF w.a.has THEN {<<"a", w.a.v>>} ELSE {}) \cup (IF w.b.has THEN {<<"b", w.b.v>>} ELSE {})
    \cup (IF w.n.has /\ w.n.p.has THEN {<<"n.p", w.n.p.v>>} ELSE {})
    \cup (IF w.n.has /\ w.n.q.has THEN {<<"n.q", w.n.q.v>>} ELSE {})
    \cup (IF w.n.has /\ w.n.r.has THEN {<<"n.r", w.n.r.v>>} ELSE {})

LeftId  == \A ow \in BOOLEAN : Merge(Empty, x, ow) = [c |-> FALSE, v |-> x]
RightId == \A ow \in BOOLEAN : Merge(x, Empty, ow) = [c |-> FALSE, v |-> x]
Assoc   == \A ow \in BOOLEAN :
             LET l == Merge3L(x, y, z, ow) r == Merge3R(x, y, z, ow) IN
             l.c = r.c /\ (~l.c => l.v = r.v)
ListsConcat == LET m == Merge(x, y, TRUE).v IN
               (x.l.has /\ y.l.has) => m.l = Given(x.l.v \o y.l.v)
SetsUnion   == LET m == Merge(x, y, TRUE).v IN
               (x.s.has /\ y.s.has) => m.s = Given(x.s.v \cup y.s.v)
NoValueDropped ==      \* without overwrite: every provided value survives, or the merge conflicts
    LET m == Merge(x, y, FALSE) IN
    ~m.c => /\ Provided(x) \cup Provided(y) \subseteq Provided(m.v)
            /\ (x.l.has \/ y.l.has) => m.v.l.has
            /\ (x.s.has \/ y.s.has) => m.v.s.has /\ (IF x.s.has THEN x.s.v ELSE {}) \cup (IF y.s.has THEN y.s.v ELSE {}) \subseteq m.v.s.v
            /\ (x.n.has \/ y.n.has) => m.v.n.has
LaterWins ==           \* with overwrite: never a conflict, the later provided atom wins
    LET m == Merge(x, y, TRUE) IN
    /\ ~m.c
    /\ (y.a.has => m.v.a = y.a) /\ (~y.a.has => m.v.a = x.a)
    /\ Provided(y) \subseteq Provided(m.v)

(* the pipeline is the fold of Merge, grouping is irrelevant, empty sources are neutral and  *)
(* a pipeline that does not abort loses nothing                                              *)
HarvestIsFold ==
    LET h == Harvest(<<x, y, z>>) l == Merge3L(x, y, z, FALSE) r == Merge3R(x, y, z, FALSE) IN
    /\ h.c = l.c /\ h.c = r.c
    /\ ~h.c => (h.v = l.v /\ h.v = r.v)
HarvestEmptySourcesNeutral ==
    LET h == Harvest(<<x, y, z>>) IN
    \A k \in 0..3 :
       LET g == Harvest(SubSeq(<<x, y, z>>, 1, k) \o <<Empty>> \o SubSeq(<<x, y, z>>, k + 1, 3)) IN
       g.c = h.c /\ (~h.c => g.v = h.v)
HarvestLossless ==
    LET h == Harvest(<<x, y, z>>) IN
    ~h.c => Provided(x) \cup Provided(y) \cup Provided(z) \subseteq Provided(h.v)

(* ---- export of all pairs for conformance ------------------------------------------ *)
Export ==
    /\ TLCGet("stats").generated >= 0
    /\ LET us == SetToSeq(Universe) n == Len(us)
           ncases == ((n * n - 1) \div Stride) + 1 IN
       JsonSerialize(IOEnv.OUT_FILE,
         [c \in 1..ncases |->
            LET k == (c - 1) * Stride + 1
                i == ((k - 1) \div n) + 1 j == ((k - 1) % n) + 1
                m == Merge(us[i], us[j], FALSE) mo == Merge(us[i], us[j], TRUE) IN
            [x |-> us[i], y |-> us[j], conflict |-> m.c, v |-> m.v, vow |-> mo.v,
             lenient |-> m.c /\ OnlyEqualClashes(us[i], us[j])]])
    /\ PairsOnly \/
       LET us == SetToSeq(Universe) n == Len(us)
           ncases == ((n * n * n - 1) \div Stride3) + 1 IN
       JsonSerialize(IOEnv.OUT3_FILE,
         [c \in 1..ncases |->
            LET k == (c - 1) * Stride3
                i == (k \div (n * n)) + 1 j == ((k \div n) % n) + 1 l == (k % n) + 1
                h == Harvest(<<us[i], us[j], us[l]>>) IN
            [x |-> us[i], y |-> us[j], z |-> us[l], conflict |-> h.c, v |-> h.v,
             lenient |-> h.c /\ OnlyEqualClashes(us[i], us[j])
                             /\ OnlyEqualClashes(Merge(us[i], us[j], TRUE).v, us[l])]])
=============================================================================
