-------------------------- MODULE MC_ContainerAcl --------------------------
EXTENDS ContainerAcl
(* start wrappers: every node of the fixture that is interesting as a start, every flag combination *)
StartNodes == {<<>>, <<"g">>, <<"g", "h">>, <<"g", "e">>}
AllStarts  == {<<n, f>> : n \in StartNodes, f \in SUBSET Flags}
AllHows    == {"getitem", "get", "items", "values"}
TwoHows    == {"getitem", "values"}
OneHow     == {"getitem"}
FewStarts  == {<<n, f>> : n \in {<<"g">>, <<>>}, f \in SUBSET Flags}
=============================================================================
