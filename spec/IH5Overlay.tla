----------------------------- MODULE IH5Overlay -----------------------------
(***************************************************************************)
(* The state machine over IH5Ops (read path, write path) and H5Tree (the   *)
(* reference) that TLC explores: all histories of user operations with     *)
(* commit+create-patch boundaries at every position, up to a bound.        *)
(***************************************************************************)
EXTENDS IH5Ops

CONSTANTS Keys,       \* keys usable in paths
          Vals,       \* value tokens
          AttrKeys,   \* attribute keys
          MaxDepth    \* maximal path length of operation arguments

-----------------------------------------------------------------------------
(* The state machine explored by TLC                                        *)

VARIABLES files,   \* the record: sequence of raw containers
          ref,     \* the reference tree
          okm,     \* did the last operation succeed/fail as on the reference?
          fresh,   \* patch-aware bookkeeping (H5Tree): datasets created since the last boundary
          touched  \*   ... and older datasets whose attributes were changed since

vars == <<files, ref, okm, fresh, touched>>

AllPaths == UNION {[1..n -> Keys] : n \in 1..MaxDepth}

Ops ==
    {[op |-> "create_group", p |-> p] : p \in AllPaths}
    \cup {[op |-> "set_dataset", p |-> p, v |-> v] : p \in AllPaths, v \in Vals}
    \cup {[op |-> "delete", p |-> p] : p \in AllPaths}
    \cup {[op |-> "set_attr", p |-> p, key |-> k, v |-> v]
             : p \in AllPaths \cup {<<>>}, k \in AttrKeys, v \in Vals}
    \cup {[op |-> "del_attr", p |-> p, key |-> k] : p \in AllPaths \cup {<<>>}, k \in AttrKeys}

(* element writes and copy_into_patch (patch-aware by design: PatchAllows)    *)
ElemOps ==
    {[op |-> "set_elem", p |-> p, k |-> 0, b |-> b] : p \in AllPaths, b \in {0, 1}}
    \cup {[op |-> "copy_into_patch", p |-> p] : p \in AllPaths}

CopyOps ==
    {[op |-> "copy", p |-> p, q |-> q] : p \in AllPaths, q \in AllPaths}
    \cup {[op |-> "move", p |-> pq[1], q |-> pq[2]]
             : pq \in {x \in AllPaths \X AllPaths : ~Under(x[1], x[2])}}

Init ==
    /\ files = <<EmptyContainer>>
    /\ ref = H5!EmptyTree
    /\ okm = TRUE
    /\ fresh = {}
    /\ touched = {}

(* a patch-aware operation succeeds iff it would on the single tree AND the      *)
(* bookkeeping allows it; every other operation iff it would on the single tree  *)
Do(e) ==
    LET w == Write(files, e) r == H5!Apply(ref, e)
        expected == r.ok /\ H5!PatchAllows(e, fresh, touched) IN
    /\ files' = IF w.ok THEN w.f ELSE files
    /\ ref' = IF expected THEN r.t ELSE ref
    /\ okm' = (w.ok = expected)
    /\ fresh' = H5!NextFresh(fresh, e, expected, ref, ref')
    /\ touched' = H5!NextTouched(touched, fresh, e, expected, ref, Patching(files))

UserOp     == \E e \in Ops : Do(e)
UserCopyOp == \E e \in CopyOps : Do(e)
UserElemOp == \E e \in ElemOps : Do(e)

(* commit_patch + create_patch: a fresh, empty newest container             *)
Boundary ==
    /\ files' = Append(files, EmptyContainer)
    /\ fresh' = {}
    /\ touched' = {}
    /\ UNCHANGED <<ref, okm>>

Next     == UserOp \/ Boundary
NextCopy == UserOp \/ UserCopyOp \/ Boundary
NextElem == UserOp \/ UserElemOp \/ Boundary
NextAll  == UserOp \/ UserCopyOp \/ UserElemOp \/ Boundary

Spec     == Init /\ [][Next]_vars
SpecCopy == Init /\ [][NextCopy]_vars
SpecElem == Init /\ [][NextElem]_vars
SpecAll  == Init /\ [][NextAll]_vars

(* ---- properties ---- *)
ViewOK      == View(files) = ref                       \* C01
OutcomeOK   == okm                                     \* C01: same success/failure
RefWellFormed == H5!WellFormed(ref)
(* the bookkeeping of H5Tree describes the write path exactly *)
FreshOK     == fresh = {p \in H5!DataPaths(ref) : CidxOf(files, p) = Len(files)}
TouchedOK   == touched = {p \in H5!DataPaths(ref) :
                             RawHas(LastC(files), p) /\ RawAt(LastC(files), p).k = "g"}
OldFrozen   == [][\A i \in 1..Len(files) - 1 : i \in DOMAIN files' /\ files'[i] = files[i]]_vars  \* C02
MergeOK     == View(Merged(files)) = View(files)       \* C05
SkeletonOK  == Skeleton(View(StubOf(files))) = Skeleton(View(files))   \* C10

=============================================================================
