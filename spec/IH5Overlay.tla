----------------------------- MODULE IH5Overlay -----------------------------
(***************************************************************************)
(* The state machine over IH5Ops (read path, write path) and H5Tree (the   *)
(* reference) that TLC explores: all histories of user operations with     *)
(* commit+create-patch boundaries at every position, up to a bound.        *)
(***************************************************************************)
EXTENDS IH5Ops

CONSTANTS Keys,       \* keys usable in paths
          Vals,       \* value tokens
          AttrKeys,   \* attribute keys
          MaxDepth    \* maximal path length of operation arguments

-----------------------------------------------------------------------------
(* The state machine explored by TLC                                        *)

VARIABLES files,   \* the record: sequence of raw containers
          ref,     \* the reference tree
          okm      \* did the last operation succeed/fail as on the reference?

vars == <<files, ref, okm>>

AllPaths == UNION {[1..n -> Keys] : n \in 1..MaxDepth}

Ops ==
    {[op |-> "create_group", p |-> p] : p \in AllPaths}
    \cup {[op |-> "set_dataset", p |-> p, v |-> v] : p \in AllPaths, v \in Vals}
    \cup {[op |-> "delete", p |-> p] : p \in AllPaths}
    \cup {[op |-> "set_attr", p |-> p, key |-> k, v |-> v]
             : p \in AllPaths \cup {<<>>}, k \in AttrKeys, v \in Vals}
    \cup {[op |-> "del_attr", p |-> p, key |-> k] : p \in AllPaths \cup {<<>>}, k \in AttrKeys}

CopyOps ==
    {[op |-> "copy", p |-> p, q |-> q] : p \in AllPaths, q \in AllPaths}
    \cup {[op |-> "move", p |-> pq[1], q |-> pq[2]]
             : pq \in {x \in AllPaths \X AllPaths : ~Under(x[1], x[2])}}

Init ==
    /\ files = <<EmptyContainer>>
    /\ ref = H5!EmptyTree
    /\ okm = TRUE

Do(e) ==
    LET w == Write(files, e) r == H5!Apply(ref, e) IN
    /\ files' = IF w.ok THEN w.f ELSE files
    /\ ref' = r.t
    /\ okm' = (w.ok = r.ok)

UserOp     == \E e \in Ops : Do(e)
UserCopyOp == \E e \in CopyOps : Do(e)

(* commit_patch + create_patch: a fresh, empty newest container             *)
Boundary ==
    /\ files' = Append(files, EmptyContainer)
    /\ UNCHANGED <<ref, okm>>

Next     == UserOp \/ Boundary
NextCopy == UserOp \/ UserCopyOp \/ Boundary

Spec     == Init /\ [][Next]_vars
SpecCopy == Init /\ [][NextCopy]_vars

(* ---- properties ---- *)
ViewOK      == View(files) = ref                       \* C01
OutcomeOK   == okm                                     \* C01: same success/failure
RefWellFormed == H5!WellFormed(ref)
OldFrozen   == [][\A i \in 1..Len(files) - 1 : i \in DOMAIN files' /\ files'[i] = files[i]]_vars  \* C02
MergeOK     == View(Merged(files)) = View(files)       \* C05
SkeletonOK  == Skeleton(View(StubOf(files))) = Skeleton(View(files))   \* C10

=============================================================================
