------------------------ MODULE PartialMergeUnbounded ------------------------
(***************************************************************************)
(* C14, value-independent part: the merge laws of PartialMerge for         *)
(* arbitrary integer atoms and arbitrary integer lists / sets with up to   *)
(* three elements each (TLC enumerates two atom values and two-element     *)
(* collections), discharged by Apalache:                                   *)
(*   apalache-mc check --length=0 --inv=Laws PartialMergeUnbounded.tla     *)
(* Same definitions as PartialMerge (absent fields carry canonical         *)
(* defaults), with type annotations; atoms are integers.                   *)
(***************************************************************************)
EXTENDS Integers, Sequences, Apalache

(*
  @typeAlias: atom = { has: Bool, v: Int };
  @typeAlias: lst = { has: Bool, v: Seq(Int) };
  @typeAlias: st = { has: Bool, v: Set(Int) };
  @typeAlias: nest = { has: Bool, tag: Int, p: $atom, q: $atom, r: $atom };
  @typeAlias: part = { a: $atom, b: $atom, l: $lst, s: $st, n: $nest };
  @typeAlias: res = { c: Bool, v: $part };
*)
PartialMergeUnbounded_aliases == TRUE

VARIABLES
    \* @type: $part;
    x,
    \* @type: $part;
    y,
    \* @type: $part;
    z

\* @type: $atom;
NoAtom == [has |-> FALSE, v |-> 0]
\* @type: $nest;
NoNest == [has |-> FALSE, tag |-> 0, p |-> NoAtom, q |-> NoAtom, r |-> NoAtom]
\* @type: $part;
Empty == [a |-> NoAtom, b |-> NoAtom, l |-> [has |-> FALSE, v |-> <<>>], s |-> [has |-> FALSE, v |-> {}], n |-> NoNest]

\* @type: ($atom) => Bool;
AtomOk(f) == f.has \/ f.v = 0
\* @type: ($part) => Bool;
WellFormed(w) ==
    /\ AtomOk(w.a) /\ AtomOk(w.b)
    /\ (w.l.has \/ w.l.v = <<>>) /\ (w.s.has \/ w.s.v = {})
    /\ IF w.n.has
       THEN w.n.tag \in {1, 2} /\ AtomOk(w.n.p) /\ AtomOk(w.n.q) /\ AtomOk(w.n.r) /\ (w.n.tag = 1 => ~w.n.r.has)
       ELSE w.n = NoNest

\* @type: ($atom, $atom, Bool) => { c: Bool, v: $atom };
MAtom(f, g, ow) ==
    IF ~g.has THEN [c |-> FALSE, v |-> f]
    ELSE IF ~f.has THEN [c |-> FALSE, v |-> g]
    ELSE [c |-> ~ow, v |-> g]
\* @type: ($lst, $lst) => $lst;
MList(f, g) == IF ~g.has THEN f ELSE IF ~f.has THEN g ELSE [has |-> TRUE, v |-> f.v \o g.v]
\* @type: ($st, $st) => $st;
MSet(f, g) == IF ~g.has THEN f ELSE IF ~f.has THEN g ELSE [has |-> TRUE, v |-> f.v \union g.v]
\* @type: ($nest, $nest, Bool) => { c: Bool, v: $nest };
MNest(f, g, ow) ==
    IF ~g.has THEN [c |-> FALSE, v |-> f]
    ELSE IF ~f.has THEN [c |-> FALSE, v |-> g]
    ELSE LET p == MAtom(f.p, g.p, ow) q == MAtom(f.q, g.q, ow) r == MAtom(f.r, g.r, ow) IN
         [c |-> p.c \/ q.c \/ r.c, v |-> [has |-> TRUE, tag |-> f.tag, p |-> p.v, q |-> q.v, r |-> r.v]]
\* @type: ($part, $part, Bool) => $res;
Merge(f, g, ow) ==
    LET a == MAtom(f.a, g.a, ow) b == MAtom(f.b, g.b, ow) n == MNest(f.n, g.n, ow) IN
    [c |-> a.c \/ b.c \/ n.c,
     v |-> [a |-> a.v, b |-> b.v, l |-> MList(f.l, g.l), s |-> MSet(f.s, g.s), n |-> n.v]]

\* @type: ($part, $part, $part, Bool) => $res;
Merge3L(f, g, h, ow) == LET m == Merge(f, g, ow) IN IF m.c THEN m ELSE Merge(m.v, h, ow)
\* @type: ($part, $part, $part, Bool) => $res;
Merge3R(f, g, h, ow) == LET m == Merge(g, h, ow) IN IF m.c THEN [c |-> TRUE, v |-> f] ELSE Merge(f, m.v, ow)

Init ==
    /\ x = Gen(3) /\ y = Gen(3) /\ z = Gen(3)
    /\ WellFormed(x) /\ WellFormed(y) /\ WellFormed(z)
Next == UNCHANGED <<x, y, z>>

Laws ==
    \A ow \in BOOLEAN :
      LET l == Merge3L(x, y, z, ow) r == Merge3R(x, y, z, ow) m == Merge(x, y, ow) IN
      /\ Merge(Empty, x, ow) = [c |-> FALSE, v |-> x]                 \* left identity
      /\ Merge(x, Empty, ow) = [c |-> FALSE, v |-> x]                 \* right identity
      /\ l.c = r.c /\ (~l.c => l.v = r.v)                             \* associativity (conflict absorbs)
      /\ (x.l.has /\ y.l.has) => m.v.l = [has |-> TRUE, v |-> x.l.v \o y.l.v]
      /\ (x.s.has /\ y.s.has) => m.v.s = [has |-> TRUE, v |-> x.s.v \union y.s.v]
      /\ (ow => ~m.c)                                                  \* with permission: never a conflict ...
      /\ (ow /\ y.a.has => m.v.a = y.a) /\ (~y.a.has => m.v.a = x.a)  \* ... and the later atom wins
      /\ (~ow /\ ~m.c /\ x.a.has => m.v.a = x.a) /\ (~ow /\ ~m.c /\ y.a.has => m.v.a = y.a)   \* nothing dropped
      \* (the result has the left class and keeps a value of the subclass-only field r all the same,
      \*  so the input rule "class 1 declares no r" is not claimed for results)
      /\ AtomOk(m.v.a) /\ AtomOk(m.v.b) /\ (m.v.l.has \/ m.v.l.v = <<>>) /\ (m.v.s.has \/ m.v.s.v = {})

(* not a law (merge is not commutative): must be rejected *)
NotALaw == Merge(x, y, TRUE).v = Merge(y, x, TRUE).v
=============================================================================
