----------------------------- MODULE PluginOrder -----------------------------
(***************************************************************************)
(* C16: plugin references <<group, name, <<major, minor, patch>>>> are     *)
(* totally ordered by (group, name, version) consistently with equality;   *)
(* `supports` is "same group, name and major, minor not smaller"; a plugin *)
(* group lists every registered version of a plugin ascending and resolves *)
(* a request to the newest registered version supporting it.               *)
(*                                                                         *)
(* Groups and names are represented by natural numbers whose order is the  *)
(* (lexicographic) order of the concrete strings the harness maps them to. *)
(* The laws are checked by TLC for all pairs/triples; the order/supports   *)
(* tables and the registry behaviours are exported (JSON) and compared     *)
(* with real PluginRef objects and a real PluginGroup.                     *)
(***************************************************************************)
EXTENDS Naturals, Sequences, FiniteSets, SequencesExt, TLC, Json, IOUtils

CONSTANTS Groups, Names, Vers,     \* sets of naturals
          RegVersions              \* set of version triples used by the registry machine

Versions3 == Vers \X Vers \X Vers
Refs == Groups \X Names \X Versions3

VerLt(v, w) ==
    \/ v[1] < w[1]
    \/ v[1] = w[1] /\ v[2] < w[2]
    \/ v[1] = w[1] /\ v[2] = w[2] /\ v[3] < w[3]
VerLeq(v, w) == v = w \/ VerLt(v, w)

Lt(a, b) ==
    \/ a[1] < b[1]
    \/ a[1] = b[1] /\ a[2] < b[2]
    \/ a[1] = b[1] /\ a[2] = b[2] /\ VerLt(a[3], b[3])
Leq(a, b) == a = b \/ Lt(a, b)

Supports(a, b) ==
    /\ a[1] = b[1] /\ a[2] = b[2]
    /\ a[3][1] = b[3][1]
    /\ a[3][2] >= b[3][2]

(* ---- laws (checked by TLC when the module is loaded) ------------------------ *)
Reflexive     == \A a \in Refs : Leq(a, a) /\ ~Lt(a, a)
Antisymmetric == \A a, b \in Refs : (Leq(a, b) /\ Leq(b, a)) => a = b
Total         == \A a, b \in Refs : Leq(a, b) \/ Leq(b, a)
Transitive    == \A a, b, c \in Refs : (Leq(a, b) /\ Leq(b, c)) => Leq(a, c)
Trichotomy    == \A a, b \in Refs : Cardinality({x \in {"lt", "eq", "gt"} :
                                        \/ x = "lt" /\ Lt(a, b)
                                        \/ x = "eq" /\ a = b
                                        \/ x = "gt" /\ Lt(b, a)}) = 1
SupportsLaws  == \A a, b \in Refs :
                    /\ Supports(a, a)
                    /\ (Supports(a, b) /\ Supports(b, a)) => (a[3][1] = b[3][1] /\ a[3][2] = b[3][2])
                    /\ \A c \in Refs : (Supports(a, b) /\ Supports(b, c)) => Supports(a, c)

(* ---- registry machine ---------------------------------------------------------- *)
VARIABLES reg,     \* versions of one plugin name registered so far
          hist     \* the registration order

vars == <<reg, hist>>

SortedVersions(S) == SetToSortSeq(S, LAMBDA v, w : VerLt(v, w))
Supporting(S, req) == {v \in S : req = <<>> \/ (v[1] = req[1] /\ v[2] >= req[2])}
Resolve(S, req) ==
    IF Supporting(S, req) = {} THEN <<>>
    ELSE CHOOSE v \in Supporting(S, req) : \A w \in Supporting(S, req) : VerLeq(w, v)

Init == reg = {} /\ hist = <<>>
Register == \E v \in RegVersions \ reg : reg' = reg \cup {v} /\ hist' = Append(hist, v)
Next == Register
Spec == Init /\ [][Next]_vars

RegistryOK ==
    LET s == SortedVersions(reg) IN
    /\ Len(s) = Cardinality(reg)
    /\ \A j \in 1..(Len(s) - 1) : VerLt(s[j], s[j + 1])
    /\ \A req \in RegVersions \cup {<<>>} :
         LET r == Resolve(reg, req) IN
         (r # <<>>) => /\ r \in reg
                       /\ (req = <<>> \/ (r[1] = req[1] /\ r[2] >= req[2]))
                       /\ \A w \in Supporting(reg, req) : VerLeq(w, r)

(* ---- exports for the conformance harness ---------------------------------------- *)
RefSeq == SetToSortSeq(Refs, Lt)
PairTable ==
    [j \in DOMAIN RefSeq |->
        [ref |-> RefSeq[j],
         leq |-> {k \in DOMAIN RefSeq : Leq(RefSeq[j], RefSeq[k])},
         sup |-> {k \in DOMAIN RefSeq : Supports(RefSeq[j], RefSeq[k])}]]
Subsets == SUBSET RegVersions
RegistryTable ==
    [S \in Subsets |->
        [versions |-> SortedVersions(S),
         resolve |-> [req \in RegVersions \cup {<<>>} |-> Resolve(S, req)]]]
ExportTables ==
    /\ TLCGet("stats").generated >= 0
    /\ JsonSerialize(IOEnv.OUT_FILE,
         [pairs |-> PairTable,
          registry |-> [j \in DOMAIN SetToSeq(Subsets) |->
                          LET S == SetToSeq(Subsets)[j] IN
                          [set |-> SetToSeq(S), versions |-> SortedVersions(S),
                           resolve |-> [k \in DOMAIN SetToSeq(RegVersions \cup {<<>>}) |->
                                          [req |-> SetToSeq(RegVersions \cup {<<>>})[k],
                                           res |-> Resolve(S, SetToSeq(RegVersions \cup {<<>>})[k])]]]]])
=============================================================================
