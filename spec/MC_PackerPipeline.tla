-------------------------- MODULE MC_PackerPipeline --------------------------
(* The packer life cycle over the small snapshot universe of DirTrees.        *)
(*   Spec      the state machine (edits, pack, update, refusals, two packers) *)
(*   PairSpec  one initial state per pair (a, b) of snapshots: a container    *)
(*             packed from a, the directory now b, one update                 *)
EXTENDS PackerPipeline, DirTrees, TLC

PackersDef == {"pa", "pb"}
First == Names1[1]
(* pa refuses a directory whose top-level entry First is a symlink; pb one without an entry First *)
InvalidForDef(pk, t) ==
    \/ pk = "pa" /\ Has(t, <<First>>) /\ At(t, <<First>>).k = "s"
    \/ pk = "pb" /\ ~Has(t, <<First>>)

Spec == PSpec
(* gen and wrote do not influence what is enabled or what the next state is; without them the state space is finite *)
View == <<dir, cont.tree, cont.src, cont.by, last>>

PairInit ==
    /\ dir \in Trees
    /\ \E a \in Trees : cont = [tree |-> Mirror(a), src |-> a, by |-> "pa", gen |-> 1, wrote |-> {}]
    /\ last = "-"
PairNext == cont.gen = 1 /\ (Update("pa") \/ UpdateRejected("pa"))
PairSpec == PairInit /\ [][PairNext]_pvars

SnapshotsWellFormed == \A t \in Trees : WellFormed(t)
N1 == <<"x", "y">>
N2 == <<"x">>
N2big == <<"x", "y">>
=============================================================================
