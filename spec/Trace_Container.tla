--------------------------- MODULE Trace_Container ---------------------------
(***************************************************************************)
(* Trace validation of MetadorContainer histories executed in lock step on *)
(* h5py.File, IH5Record and IH5MFRecord (with silent IH5 patch boundaries  *)
(* and reopen points).  Every event carries, per driver, the complete raw  *)
(* stored state (user tree, metadata objects, TOC links, schema and        *)
(* package records, empty/unexpected bookkeeping nodes), the user-visible  *)
(* projection through the container interface, sampled query results, all *)
(* get results, and the public schema index of the live and of a freshly   *)
(* constructed container object.  Clauses are grouped by property:         *)
(*   C06  toc_sync, no_empty_bookkeeping_groups, meta_follows_reference,   *)
(*        uuids_stable, index_eq_rebuild, failed_op_changes_nothing        *)
(*   C07  query_exact, get_returns_stored, get_found_iff_matches,          *)
(*        meta_listing_is_storage,                                          *)
(*        ancestor_view_valid, attach_outcome (aux/unknown/duplicate)      *)
(*   C08  user_view_is_plain_tree, listings_consistent,                    *)
(*        reserved_rejected_without_effect, no_unexpected_reserved_nodes   *)
(*   C09  ok_matches_reference, tree_is_apply_of_reference, drivers_agree  *)
(*   C20  self_describing, embedded_jsonschema_current, objects_validate   *)
(***************************************************************************)
EXTENDS Naturals, Sequences, FiniteSets, SequencesExt, TLC, Json, IOUtils

Traces == JsonDeserialize(IOEnv.TRACE_FILE)

CT == INSTANCE Container
H5 == INSTANCE H5Tree

VARIABLES tid, i, bad,
          packed     \* embedded files (C17): path -> [tok, meta] as the reference tracks them
vars == <<tid, i, bad, packed>>

SeqToSet(s) == {s[j] : j \in DOMAIN s}
Ref(r)      == <<r[1], <<r[2][1], r[2][2], r[2][3]>>>>
RefKey(r)   == r[1] \o "@" \o ToString(r[2][1]) \o "." \o ToString(r[2][2]) \o "." \o ToString(r[2][3])

(* ---- the environment as the plugin system reported it -------------------- *)
EnvOf(env) ==
    [parents  |-> [k \in DOMAIN env.parents |-> [j \in DOMAIN env.parents[k] |-> Ref(env.parents[k][j])]],
     provider |-> env.provider,
     versions |-> env.versions,
     aux      |-> SeqToSet(env.aux),
     jsdig    |-> env.jsdig]

Installed(env, name) ==
    IF name \in DOMAIN env.versions
    THEN {<<name, <<v[1], v[2], v[3]>>>> : v \in SeqToSet(env.versions[name])} ELSE {}

VerLeq(a, b) ==   \* lexicographic on version triples
    \/ a[1] < b[1]
    \/ a[1] = b[1] /\ a[2] < b[2]
    \/ a[1] = b[1] /\ a[2] = b[2] /\ a[3] <= b[3]

(* PluginGroup.resolve: the newest installed version that supports the request *)
Candidates(env, name, ver) ==
    {r \in Installed(env, name) : ver = <<>> \/ CT!Supports(r, <<name, ver>>)}
Resolve(env, name, ver) ==
    CHOOSE r \in Candidates(env, name, ver) : \A s \in Candidates(env, name, ver) : VerLeq(s[2], r[2])

ParentsOf(env, ref) == EnvOf(env).parents[RefKey(ref)]

(* ---- state of one driver --------------------------------------------------- *)
MetaOf(d) == {[node |-> m.node, isds |-> m.isds, schema |-> Ref(m.schema), uuid |-> m.uuid,
               content |-> m.content, at |-> m.at] : m \in SeqToSet(d.meta)}
StateOf(d) ==
    [tree    |-> SeqToSet(d.tree),
     meta    |-> MetaOf(d),
     links   |-> {[schema |-> Ref(l.schema), uuid |-> l.uuid, target |-> l.target] : l \in SeqToSet(d.links)},
     schemas |-> {[ref |-> Ref(s.ref), parents |-> [j \in DOMAIN s.parents |-> Ref(s.parents[j])]] : s \in SeqToSet(d.schemas)},
     pkgs    |-> {[name |-> p.name, ver |-> p.ver, provides |-> {Ref(r) : r \in SeqToSet(p.provides)}] : p \in SeqToSet(d.pkgs)}]

(* the environment record in the shape Container.tla expects, restricted to what is needed *)
ParentsFn(env, S) == [r \in S |-> ParentsOf(env, r)]

Matches(env, t, s, v) ==
    \E a \in SeqToSet(ParentsOf(env, t)) : a[1] = s /\ (v = <<>> \/ CT!Supports(<<s, v>>, a))

QueryExpected(env, C, start, s, v) ==
    {m.node : m \in {x \in C.meta : H5!Under(start, x.node) /\ Matches(env, x.schema, s, v)}}

(* ---- the operation as the reference sees it --------------------------------- *)
TreeOps == {"create_group", "set_dataset", "delete", "set_attr", "del_attr", "copy", "move", "require_group"}
MARK == "MARK"      \* the file whose content is exactly the IH5 deletion marker

Accepts(env, C, a) ==
    \* the driver object under the container was opened read-only: nothing that writes can succeed
    IF a.ro THEN a.op = "require_group" /\ H5!IsGroup(C.tree, a.p) ELSE
    CASE a.op = "attach" ->
            /\ H5!Has(C.tree, a.p)
            /\ Candidates(env, a.schema, IF a.sver = <<>> THEN <<>> ELSE <<a.sver[1], a.sver[2], a.sver[3]>>) # {}
            /\ a.schema \notin SeqToSet(env.aux)
            /\ a.valid
            /\ ~\E m \in C.meta : m.node = a.p /\ m.schema[1] = a.schema
      [] a.op = "detach"   -> \E m \in C.meta : m.node = a.p /\ m.schema[1] = a.schema
      [] a.op \in {"reserved", "passthrough"} -> FALSE
      [] a.op = "pack"     -> H5!CanCreate(C.tree, a.p) /\ a.tok # MARK
      [] a.op \in TreeOps  -> H5!Apply(C.tree, a).ok
      [] OTHER -> TRUE

ExpectedTree(C, a, P) ==
    IF a.op \in TreeOps THEN H5!Apply(C.tree, a).t
    ELSE IF a.op = "pack" /\ H5!Has(P.tree, a.p)
    THEN H5!SetDataset(C.tree, a.p, H5!NodeAt(P.tree, a.p).v).t      \* the bytes are judged by embedded_bytes_exact
    ELSE C.tree

Core(M) == {[node |-> m.node, isds |-> m.isds, schema |-> m.schema, content |-> m.content] : m \in M}

ExpectedCore(env, C, a, post) ==
    CASE a.op = "copy" /\ ~a.without_meta ->
            Core(C.meta) \cup
            {[node |-> H5!Rebase(m.node, a.p, a.q), isds |-> m.isds, schema |-> m.schema, content |-> m.content]
                : m \in {x \in C.meta : H5!Under(a.p, x.node)}}
      [] a.op = "move" ->
            {[node |-> IF H5!Under(a.p, m.node) THEN H5!Rebase(m.node, a.p, a.q) ELSE m.node,
              isds |-> m.isds, schema |-> m.schema, content |-> m.content] : m \in C.meta}
      [] a.op = "delete" -> Core({m \in C.meta : ~H5!Under(a.p, m.node)})
      [] a.op = "attach" ->
            \* the stored schema is the resolved installed version; the content is whatever the
            \* serialisation produced (its fidelity is judged by get_returns_stored)
            LET r == Resolve(env, a.schema, IF a.sver = <<>> THEN <<>> ELSE <<a.sver[1], a.sver[2], a.sver[3]>>)
                new == {m \in post.meta : m.node = a.p /\ m.schema[1] = a.schema}
            IN Core(C.meta) \cup {[node |-> a.p, isds |-> H5!IsData(C.tree, a.p), schema |-> r, content |-> m.content] : m \in new}
      [] a.op = "detach" -> Core({m \in C.meta : ~(m.node = a.p /\ m.schema[1] = a.schema)})
      [] a.op = "pack" ->
            LET r == Resolve(env, "core.file", <<>>)
                new == {m \in post.meta : m.node = a.p /\ m.schema[1] = "core.file"}
            IN Core(C.meta) \cup {[node |-> a.p, isds |-> TRUE, schema |-> r, content |-> m.content] : m \in new}
      [] OTHER -> Core(C.meta)

UuidsStable(C, a, post, ok) ==
    \A m \in C.meta :
        LET keep == ~ok \/ CASE a.op = "delete" -> ~H5!Under(a.p, m.node)
                             [] a.op = "detach" -> ~(m.node = a.p /\ m.schema[1] = a.schema)
                             [] OTHER -> TRUE
            node == IF ok /\ a.op = "move" /\ H5!Under(a.p, m.node) THEN H5!Rebase(m.node, a.p, a.q) ELSE m.node
        IN keep => \E n \in post.meta : n.uuid = m.uuid /\ n.node = node /\ n.schema = m.schema /\ n.content = m.content

SelfDescribing(env, C) ==
    /\ \A r \in CT!UsedSchemas(C) : \E s \in C.schemas : s.ref = r      \* every schema in use is described
    /\ \A s \in C.schemas : RefKey(s.ref) \in DOMAIN env.parents /\ s.parents = ParentsOf(env, s.ref)
    /\ \A r \in CT!UsedSchemas(C) :
          \E p \in C.pkgs : r \in p.provides /\ <<p.name, p.ver>> = <<env.provider[RefKey(r)][1], env.provider[RefKey(r)][2]>>

TocSync(env, C) == CT!TOCSync(C, env)

(* ---- C17: embedded files ---- *)
PackedAfter(pk, a, acc) ==
    IF ~acc THEN pk
    ELSE CASE a.op = "pack"   -> [x \in DOMAIN pk \cup {a.p} |-> IF x = a.p THEN [tok |-> a.tok, meta |-> TRUE] ELSE pk[x]]
           [] a.op = "delete" -> [x \in {y \in DOMAIN pk : ~H5!Under(a.p, y)} |-> pk[x]]
           [] a.op = "move"   ->
                [x \in {IF H5!Under(a.p, y) THEN H5!Rebase(y, a.p, a.q) ELSE y : y \in DOMAIN pk} |->
                    LET src == CHOOSE y \in DOMAIN pk : x = (IF H5!Under(a.p, y) THEN H5!Rebase(y, a.p, a.q) ELSE y) IN pk[src]]
           [] a.op = "copy"   ->
                [x \in DOMAIN pk \cup {H5!Rebase(y, a.p, a.q) : y \in {z \in DOMAIN pk : H5!Under(a.p, z)}} |->
                    IF x \in DOMAIN pk THEN pk[x]
                    ELSE LET src == CHOOSE y \in DOMAIN pk : H5!Under(a.p, y) /\ H5!Rebase(y, a.p, a.q) = x IN
                         [tok |-> pk[src].tok, meta |-> pk[src].meta /\ ~a.without_meta]]
           [] a.op = "detach" -> [x \in DOMAIN pk |-> IF x = a.p /\ a.schema = "core.file" THEN [pk[x] EXCEPT !.meta = FALSE] ELSE pk[x]]
           [] OTHER -> pk

FileClauses(env, pk, d) ==
    LET F == SeqToSet(d.files) IN
    (IF \E p \in DOMAIN pk : ~\E r \in F : r.p = p /\ r.tok = pk[p].tok THEN {"embedded_bytes_exact"} ELSE {})
    \cup (IF \E p \in DOMAIN pk : pk[p].meta /\ ~\E r \in F :
                  r.p = p /\ r.hasmeta /\ r.size = env.pool[pk[p].tok][1] /\ r.sha = env.pool[pk[p].tok][2]
          THEN {"file_metadata_exact"} ELSE {})

DriverClauses(env, a, pd, d) ==
    LET C == StateOf(pd) P == StateOf(d) ok == d.ok
        acc == Accepts(env, C, a)
        ver(q) == IF q.ver = <<>> THEN <<>> ELSE <<q.ver[1], q.ver[2], q.ver[3]>>
    IN
    (IF d.timeout THEN {"operation_terminates"} ELSE {})
    \cup (IF d.obs_err # "" THEN {"state_observable"} ELSE {})
    \cup (IF d.obs_err = "" /\ ~d.timeout THEN
    (IF ok # acc THEN {"ok_matches_reference"} ELSE {})
    \cup (IF P.tree # (IF ok THEN ExpectedTree(C, a, P) ELSE C.tree) THEN {"tree_is_apply_of_reference"} ELSE {})
    \cup (IF Core(P.meta) # (IF ok THEN ExpectedCore(env, C, a, P) ELSE Core(C.meta)) THEN {"meta_follows_reference"} ELSE {})
    \cup (IF ~UuidsStable(C, a, P, ok) THEN {"uuids_stable"} ELSE {})
    \cup (IF ~ok /\ P # C THEN {"failed_op_changes_nothing"} ELSE {})
    \cup (IF a.op = "reserved" /\ (ok \/ P # C) THEN {"reserved_rejected_without_effect"} ELSE {})
    \cup (IF a.op = "passthrough" /\ (ok \/ P # C) THEN {"unsupported_not_passed_through"} ELSE {})
    \cup (IF ~TocSync(env, P) THEN {"toc_sync"} ELSE {})
    \cup (IF d.empties # <<>> THEN {"no_empty_bookkeeping_groups"} ELSE {})
    \cup (IF d.weird # <<>> THEN {"no_unexpected_reserved_nodes"} ELSE {})
    \cup (IF \E s \in SeqToSet(d.schemas) : SeqToSet(s.kids) # {"compat", "jsonschema.json"} THEN {"schema_record_complete"} ELSE {})
    \cup (IF SeqToSet(d.uview) # P.tree \/ SeqToSet(d.uvisit) # H5!Paths(P.tree) \ {<<>>} THEN {"user_view_is_plain_tree"} ELSE {})
    \cup (IF d.uextra # <<>> THEN {"listings_consistent"} ELSE {})
    \cup (IF \E q \in SeqToSet(d.queries) :
               \/ q.err # ""
               \/ SeqToSet(q.result) # QueryExpected(env, P, q.start, q.schema, ver(q))
               \/ Len(q.result) # Cardinality(SeqToSet(q.result))
          THEN {"query_exact"} ELSE {})
    \cup (IF \E g \in SeqToSet(d.gets) : g.err # "" \/ ~g.found \/ ~g.contains \/ ~g.listed THEN {"get_found_iff_matches"} ELSE {})
    \* what the nodes list as attached metadata = what is stored (no object missing, none listed that is not there)
    \cup (IF {<<x.node, x.schema>> : x \in SeqToSet(d.umeta)} # {<<m.node, m.schema[1]>> : m \in P.meta}
             \/ \E x \in SeqToSet(d.umeta) : ~x.in \/ ~x.got
          THEN {"meta_listing_is_storage"} ELSE {})
    \cup (IF \E g \in SeqToSet(d.gets) : g.found /\ ~g.is_instance THEN {"ancestor_view_valid"} ELSE {})
    \cup (IF \E g \in SeqToSet(d.gets) : g.found /\ ~g.eq THEN {"get_returns_stored"} ELSE {})
    \cup (IF ~SelfDescribing(env, P) THEN {"self_describing"} ELSE {})
    \cup (IF \E s \in SeqToSet(d.schemas) : RefKey(Ref(s.ref)) \notin DOMAIN env.jsdig \/ s.jsdig # env.jsdig[RefKey(Ref(s.ref))]
          THEN {"embedded_jsonschema_current"} ELSE {})
    \cup (IF \E m \in SeqToSet(d.meta) : ~m.validates THEN {"objects_validate_against_embedded_schema"} ELSE {})
    \cup (IF d.index_live # d.index_fresh THEN {"index_eq_rebuild"} ELSE {})
    \* a handle obtained earlier shows the current metadata of its node
    \cup (IF d.held # <<>> THEN {"held_handles_current"} ELSE {})
    \* uuid, specification version and driver type never change; source and driver describe the wrapped object
    \cup (IF ~d.ident_ok \/ (pd.obs_err = "" /\ pd.ident # d.ident) THEN {"container_identity_stable"} ELSE {})
    ELSE {})

Agree(d1, d2) ==
    /\ d1.ok = d2.ok
    /\ SeqToSet(d1.tree) = SeqToSet(d2.tree)
    /\ Core(MetaOf(d1)) = Core(MetaOf(d2))
    /\ SeqToSet(d1.uview) = SeqToSet(d2.uview)
    /\ [j \in DOMAIN d1.queries |-> SeqToSet(d1.queries[j].result)] = [j \in DOMAIN d2.queries |-> SeqToSet(d2.queries[j].result)]

Clauses(T, j, pk) ==
    LET e == T[j] pe == T[j - 1] env == e.env
        pk2 == PackedAfter(pk, e.a, Accepts(env, StateOf(pe.d[1]), e.a)) IN
    UNION {{<<c, e.d[k].drv>> : c \in DriverClauses(env, e.a, pe.d[k], e.d[k])} : k \in DOMAIN e.d}
    \cup UNION {{<<c, e.d[k].drv>> : c \in IF e.d[k].obs_err = "" THEN FileClauses(env, pk2, e.d[k]) ELSE {}} : k \in DOMAIN e.d}
    \cup (IF \E k \in DOMAIN e.d : ~Agree(e.d[1], e.d[k]) /\ e.d[k].obs_err = "" /\ e.d[1].obs_err = ""
          THEN {<<"drivers_agree", "all">>} ELSE {})
    \* what the plugin system reports as parent path of a schema is the chain of plugin classes in its class hierarchy
    \cup (IF env.pg_mismatch # <<>> THEN {<<"parent_path_is_class_chain", "all">>} ELSE {})

Init == tid \in 1..Len(Traces) /\ i = 1 /\ bad = {} /\ packed = <<>>

Step ==
    /\ i < Len(Traces[tid])
    /\ LET T == Traces[tid] e == T[i + 1] IN
       /\ bad' = bad \cup {<<i + 1, c[1], c[2]>> : c \in Clauses(T, i + 1, packed)}
       /\ packed' = PackedAfter(packed, e.a, Accepts(e.env, StateOf(T[i].d[1]), e.a))
    /\ i' = i + 1
    /\ UNCHANGED tid

Done ==
    /\ i = Len(Traces[tid])
    /\ TLCSet(tid, bad)
    /\ i' = i + 1
    /\ UNCHANGED <<tid, bad, packed>>

TraceSpec == Init /\ [][Step \/ Done]_vars

WriteVerdicts ==
    JsonSerialize(IOEnv.OUT_FILE, [t \in 1..Len(Traces) |-> SetToSeq(TLCGet(t))])
=============================================================================
