----------------------------- MODULE PluginLoad -----------------------------
(***************************************************************************)
(* Loading plugins with dependencies (plugin/interface.py                   *)
(* PluginGroup._ensure_is_loaded / _load_plugin; schema/pg.py plugin_deps   *)
(* and check_plugin = check_types): the mechanism that keeps an invalid     *)
(* schema (C13) from ever being handed out.                                 *)
(*                                                                         *)
(* Plugins   plugin indices; Dep[p] the plugins p depends on (its parent    *)
(*           schema plugin and everything in Plugin.requires); acyclic:     *)
(*           Dep[p] holds larger indices only (class inheritance is         *)
(*           acyclic; `requires` cycles are outside the model)              *)
(* Invalid   plugins whose own check fails (undeclared incompatible         *)
(*           override somewhere in their class chain)                       *)
(* loaded    what the group counts as loaded                                *)
(*                                                                         *)
(* Load is written the way the code works: the plugin is entered into the   *)
(* table FIRST (so that circular references terminate), then checked, then  *)
(* its dependencies are loaded one after the other in the order `ord`       *)
(* (the code iterates over a set: every order is explored), and when        *)
(* anything fails the plugin is taken out again and the failure is passed   *)
(* on to whoever asked.                                                    *)
(***************************************************************************)
EXTENDS Naturals, Sequences, FiniteSets, SequencesExt

CONSTANTS Plugins, Mutant
VARIABLES dep, invalid, ord, loaded, last

lvars == <<dep, invalid, ord, loaded, last>>

RECURSIVE Closure(_, _)
Closure(d, p) == {p} \cup UNION {Closure(d, q) : q \in d[p]}
Loadable(d, inv, p) == Closure(d, p) \cap inv = {}

(* dependencies of p in the order ord (a sequence of all plugins) *)
DepsInOrder(d, o, p) == SelectSeq(o, LAMBDA q : q \in d[p])

RECURSIVE Load(_, _, _, _, _), LoadSeq(_, _, _, _, _, _)
Load(L, d, inv, o, p) ==                      \* [ok, L]
    IF p \in L THEN [ok |-> TRUE, L |-> L]
    ELSE LET L1 == L \cup {p} IN               \* entered first
         IF p \in inv
         THEN [ok |-> FALSE, L |-> IF Mutant = "refused_stays_entered" THEN L1 ELSE L]
         ELSE LET r == LoadSeq(L1, d, inv, o, DepsInOrder(d, o, p), 1) IN
              IF r.ok THEN r
              ELSE [ok |-> FALSE, L |-> IF Mutant = "dependent_stays_entered" THEN r.L ELSE r.L \ {p}]
LoadSeq(L, d, inv, o, s, j) ==
    IF j > Len(s) THEN [ok |-> TRUE, L |-> L]
    ELSE LET r == Load(L, d, inv, o, s[j]) IN
         IF r.ok THEN LoadSeq(r.L, d, inv, o, s, j + 1) ELSE r

Graphs == {d \in [Plugins -> SUBSET Plugins] : \A p \in Plugins : \A q \in d[p] : q > p}

Init ==
    /\ dep \in Graphs
    /\ invalid \in SUBSET Plugins
    /\ ord \in {o \in [1..Cardinality(Plugins) -> Plugins] : \A a, b \in DOMAIN o : a # b => o[a] # o[b]}
    /\ loaded = {}
    /\ last = [p |-> 0, ok |-> TRUE]

Request(p) ==
    LET r == Load(loaded, dep, invalid, ord, p) IN
    /\ loaded' = r.L
    /\ last' = [p |-> p, ok |-> r.ok]
    /\ UNCHANGED <<dep, invalid, ord>>

Next == \E p \in Plugins : Request(p)
Spec == Init /\ [][Next]_lvars

(* ---- properties ---------------------------------------------------------------- *)
(* a request succeeds exactly when nothing in the dependency closure is invalid -- whatever happened before *)
OutcomeIsLoadable == last.p # 0 => (last.ok <=> Loadable(dep, invalid, last.p))
(* what counts as loaded is valid, complete with its dependencies, and those are valid too *)
LoadedClosedAndValid == \A p \in loaded : Closure(dep, p) \subseteq loaded /\ Loadable(dep, invalid, p)
(* nothing is ever unloaded by a later request *)
LoadedOnlyGrows == [][loaded \subseteq loaded']_lvars
=============================================================================
