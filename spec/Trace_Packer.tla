---------------------------- MODULE Trace_Packer ----------------------------
(***************************************************************************)
(* Conformance of the packer life cycle (PGPacker._prepare / pack / update  *)
(* / _finalize, Packer.pack / update, DirDiff.compare / annotate,           *)
(* dir_hashsums, pack_file, on h5py.File, IH5Record and IH5MFRecord) with   *)
(* PackerPipeline.tla.  One event per call:                                 *)
(*   op "edit"    the harness rewrote the source directory; dir = snapshot   *)
(*   op "pack" / "update" with packer pk: outcome ok, and the container as   *)
(*      a freshly opened reader sees it: exists, tree (groups, embedded      *)
(*      files by content), src (the snapshot recorded in core.packerinfo),   *)
(*      by (recorded packer), nfiles (containers of the record, -1: plain    *)
(*      HDF5), wrote (user paths present in the newest patch container,      *)
(*      haswrote), filemeta (every embedded file's core.file size and        *)
(*      sha256 equal the source bytes), unchanged (files on disk byte-equal  *)
(*      to before the call)                                                  *)
(* The spec state is advanced with the action the call corresponds to and   *)
(* the observation is compared with it.  Clauses:                           *)
(*   outcome_as_specified, container_mirrors_directory,                      *)
(*   recorded_source_is_directory, packer_recorded, refused_changes_nothing, *)
(*   refused_creates_nothing, writes_only_diff, writes_all_of_diff,          *)
(*   one_container_per_run, file_metadata_exact,                             *)
(*   packer_cannot_finalize_or_read                                          *)
(***************************************************************************)
EXTENDS Naturals, Sequences, FiniteSets, Json, IOUtils, TLC

Traces == JsonDeserialize(IOEnv.TRACE_FILE)

VARIABLES tid, i, bad, dir, cont, last
vars == <<tid, i, bad, dir, cont, last>>

SeqToSet(s) == {s[j] : j \in DOMAIN s}
TNames == <<"a", "b", "c", "d">>
TPackers == {"pa", "pb"}
(* pa refuses a directory whose top-level entry "a" is a symlink, pb one without an entry "a" (harness/packerplug.py) *)
TInvalidFor(pk, t) ==
    \/ pk = "pa" /\ \E e \in t : e.p = <<"a">> /\ e.k = "s"
    \/ pk = "pb" /\ ~\E e \in t : e.p = <<"a">>
INSTANCE PackerPipeline WITH Snapshots <- {}, Names <- TNames, Packers <- TPackers, InvalidFor <- TInvalidFor, Mutant <- "none"

Clauses(e, c, l, before) ==
    LET All == SeqToSet(e.wrote)
        \* the leaves of the newest container: nodes created or replaced there and deletion marks (groups above them are
        \* only passed through; a deletion mark at a directory stands for everything below it)
        W == {w \in All : ~\E v \in All : v # w /\ Under(w, v)} IN
    (IF e.ok # (l = "ok") THEN {"outcome_as_specified"} ELSE {})
    \cup (IF c = NoCont /\ e.exists THEN {"refused_creates_nothing"} ELSE {})
    \cup (IF c # NoCont /\ (~e.exists \/ SeqToSet(e.tree) # c.tree) THEN {"container_mirrors_directory"} ELSE {})
    \cup (IF c # NoCont /\ e.exists /\ SeqToSet(e.src) # c.src THEN {"recorded_source_is_directory"} ELSE {})
    \cup (IF c # NoCont /\ e.exists /\ e.by # c.by THEN {"packer_recorded"} ELSE {})
    \cup (IF l = "rejected" /\ before # NoCont /\ ~e.unchanged THEN {"refused_changes_nothing"} ELSE {})
    \cup (IF l = "ok" /\ e.haswrote /\ c.gen > 1 /\ ~(W \subseteq c.wrote)
          THEN {"writes_only_diff"} ELSE {})
    \cup (IF l = "ok" /\ e.haswrote /\ c.gen > 1 /\ (\E x \in c.wrote : x \notin All /\ ~\E w \in W : Under(w, x))
          THEN {"writes_all_of_diff"} ELSE {})
    \cup (IF l = "ok" /\ e.nfiles >= 0 /\ e.nfiles # c.gen THEN {"one_container_per_run"} ELSE {})
    \cup (IF c # NoCont /\ e.exists /\ ~e.filemeta THEN {"file_metadata_exact"} ELSE {})
    \* requirements 1 and 2 of the Packer contract: the container a packer is handed cannot be finalized and yields no
    \* data, attribute values or metadata objects (probed from inside the packer at the end of every run)
    \cup (IF e.probes # <<>> THEN {"packer_cannot_finalize_or_read"} ELSE {})

Init == tid \in 1..Len(Traces) /\ i = 1 /\ bad = {} /\ dir = {Dir(<<>>)} /\ cont = NoCont /\ last = "-"
Step ==
    /\ i <= Len(Traces[tid])
    /\ LET e == Traces[tid][i] IN
       /\ \/ e.op = "edit" /\ dir' = SeqToSet(e.dir) /\ last' = "-" /\ UNCHANGED cont
          \/ e.op = "pack" /\ (Pack(e.pk) \/ PackRejected(e.pk))
          \/ e.op = "update" /\ (Update(e.pk) \/ UpdateRejected(e.pk))
       /\ bad' = bad \cup (IF e.op = "edit" THEN {} ELSE {<<i, c>> : c \in Clauses(e, cont', last', cont)})
    /\ i' = i + 1
    /\ UNCHANGED tid
Done ==
    /\ i = Len(Traces[tid]) + 1
    /\ TLCSet(tid, bad)
    /\ i' = i + 1
    /\ UNCHANGED <<tid, bad, dir, cont, last>>
TraceSpec == Init /\ [][Step \/ Done]_vars
(* the spec's own invariants, evaluated in every state of every validated history *)
TraceInv == ContainerMirrorsRecordedSource
WriteVerdicts ==
    JsonSerialize(IOEnv.OUT_FILE, [t \in 1..Len(Traces) |-> SetToSeq(TLCGet(t))])
=============================================================================
