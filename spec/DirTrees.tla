------------------------------ MODULE DirTrees ------------------------------
(* The universe of small directory snapshots shared by the DirDiff and the    *)
(* PackerPipeline model: every tree of depth <= 2 over the given names,       *)
(* file contents and symlink targets (files, symlinks, empty and non-empty    *)
(* directories at both levels).                                               *)
EXTENDS DirDiff

CONSTANTS Names1,     \* keys usable at depth 1 (as a sequence in alphabetical order)
          Names2,     \* keys usable at depth 2
          Contents,   \* file content tokens
          Targets,    \* symlink targets
          Stride

Leaf      == {[k |-> "f", v |-> c] : c \in Contents} \cup {[k |-> "s", v |-> t] : t \in Targets}
Opt2      == Leaf \cup {[k |-> "d", v |-> ""], NONE}
SeqToSet2(s) == {s[j] : j \in DOMAIN s}
DirBodies == [SeqToSet2(Names2) -> Opt2]
Top       == {[e |-> l, body |-> <<>>] : l \in Leaf \cup {NONE}}
             \cup {[e |-> [k |-> "d", v |-> ""], body |-> bd] : bd \in DirBodies}
Shapes    == [SeqToSet2(Names1) -> Top]

TreeOf(sh) ==
    {Dir(<<>>)}
    \cup {[p |-> <<n>>, k |-> sh[n].e.k, v |-> sh[n].e.v] : n \in {m \in SeqToSet2(Names1) : sh[m].e # NONE}}
    \cup UNION {{[p |-> <<n, m>>, k |-> sh[n].body[m].k, v |-> sh[n].body[m].v]
                    : m \in {x \in SeqToSet2(Names2) : sh[n].body[x] # NONE}}
                : n \in {x \in SeqToSet2(Names1) : sh[x].e.k = "d"}}
Trees == {TreeOf(sh) : sh \in Shapes}

AllNames == Names1 \o SelectSeq(Names2, LAMBDA n : n \notin SeqToSet2(Names1))
=============================================================================
