--------------------------- MODULE Sim_IH5Overlay ---------------------------
(***************************************************************************)
(* Simulation wrapper of IH5Overlay used to *generate behaviours* that are *)
(* replayed on the real IH5Record (spec -> code).  A history variable      *)
(* records the operations and the outcome the specification expects; when  *)
(* a behaviour reaches the requested length it is printed as one JSON line.*)
(* Successful operations are favoured (only enabled operations that the    *)
(* reference accepts, plus a separate disjunct for refused ones), so the   *)
(* behaviours are deep valid histories rather than mostly failures.        *)
(* The history variable exists only here, never in exhaustive configs.     *)
(***************************************************************************)
EXTENDS IH5Overlay, Json

CONSTANTS SimLen, MaxFiles, BoundaryWeight

VARIABLES hist,   \* operations performed so far, with the outcome the spec expects
          rep     \* replication index: gives rare actions more weight in the
                  \* simulator's uniform choice among successor states

svars == <<files, ref, okm, fresh, touched, hist, rep>>

SimInit == Init /\ hist = <<>> /\ rep = 0

Entry(e, ok) ==
    [op |-> e.op,
     p |-> e.p,
     q |-> IF e.op \in {"copy", "move"} THEN e.q ELSE <<>>,
     key |-> IF e.op \in {"set_attr", "del_attr"} THEN e.key ELSE "",
     v |-> IF e.op \in {"set_attr", "set_dataset"} THEN e.v ELSE "",
     k |-> IF e.op = "set_elem" THEN e.k ELSE 0,
     b |-> IF e.op = "set_elem" THEN e.b ELSE 0,
     ok |-> ok]

AllOps == Ops \cup CopyOps \cup ElemOps
Expected(e) == H5!Apply(ref, e).ok /\ H5!PatchAllows(e, fresh, touched)

(* every operation the specification expects to succeed *)
OkOp ==
    /\ \E e \in AllOps : Expected(e) /\ Do(e) /\ hist' = Append(hist, Entry(e, TRUE))
    /\ rep' = 0

(* refused operations: only a few per state, or they would drown the rest *)
FailOp ==
    /\ \E e \in AllOps : /\ ~Expected(e)
                          /\ e.op \in {"create_group", "delete", "del_attr", "copy", "set_elem", "copy_into_patch"}
                          /\ Len(e.p) = 1
                          /\ Do(e) /\ hist' = Append(hist, Entry(e, FALSE))
    /\ rep' = 0

SimBoundary ==
    /\ Len(files) < MaxFiles
    /\ Boundary
    /\ hist' = Append(hist, [op |-> "boundary", p |-> <<>>, q |-> <<>>, key |-> "",
                             v |-> "", k |-> 0, b |-> 0, ok |-> TRUE])
    /\ rep' \in 1..BoundaryWeight

SimNext == OkOp \/ FailOp \/ SimBoundary

SimSpec == SimInit /\ [][SimNext]_svars

Emit == TLCGet("level") < SimLen \/ PrintT(<<"HIST", ToJson(hist)>>)
=============================================================================
