--------------------------- MODULE MC_PluginOrder ---------------------------
EXTENDS PluginOrder
RegVersionsBig == {<<1, 0, 0>>, <<1, 2, 0>>, <<1, 2, 3>>, <<2, 0, 0>>, <<0, 9, 1>>, <<1, 10, 0>>, <<10, 0, 0>>}
(* components with different digit counts inside one major version (1.2 < 1.10) and across (0.9 < 1.x < 2.0) *)
RegVersionsDef == {<<1, 10, 0>>, <<1, 2, 0>>, <<1, 2, 3>>, <<2, 0, 0>>, <<0, 9, 1>>}
(* the transitivity of the order over all triples is checked once, as an assumption *)
ASSUME Transitive
=============================================================================
